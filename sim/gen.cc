#include "gen.h"

uint64_t pages_page_size(uint64_t p)
{
        static const uint64_t ps[] = { 4096, 8192, 16384, 32768, 65536 };
        return ps[p % 5];
}

void far_copies(uint8_t *d, size_t n, uint64_t seed)
{
        Rng r(seed, "farcopy");
        size_t i = 4096 + (size_t) r.below(4096);
        if ((seed & 7) == 7) {
                // second style: a long literal lead-in, then clusters of 8-30 copies of every length from all over the window (half of
                // them from beyond 16 KiB: 13 extra distance bits), 500-2500 literals between the clusters - runs of tokens of 26-35 bits
                // of mixed widths, where the first style has short clusters of mostly short copies
                i = std::min<size_t>(n / 2, 32768);
                while (i < n) {
                        for (int c = (int) (8 + r.below(23)); c > 0 && i < n; c--) {
                                size_t len = 4 + (size_t) r.below(250), dist = r.chance(1, 2) ? 16385 + (size_t) r.below(16000) : 300 + (size_t) r.below(32000);
                                if (dist > i)
                                        dist = i;
                                if (len > n - i)
                                        len = n - i;
                                for (size_t k = 0; k < len; k++)
                                        d[i + k] = d[i + k - dist];
                                i += len;
                        }
                        i += 500 + (size_t) r.below(2000);
                }
                return;
        }
        while (i < n) {
                bool big = r.chance(1, 60); // rarely (so that their length symbols stay rare and get long codes) dozens of long copies back to back: 16 consecutive tokens of 30+ bits each
                int cluster = big ? 16 + (int) r.below(48) : 2 + (int) r.below(5);
                for (int c = 0; c < cluster && i < n; c++) {
                        size_t len = big ? 131 + (size_t) r.below(120) : 3 + (size_t) (r.chance(1, 2) ? r.below(12) : r.below(255));
                        size_t dist = 4096 + (size_t) r.below(28672);
                        if (dist > i)
                                dist = i;
                        if (len > n - i)
                                len = n - i;
                        for (size_t k = 0; k < len; k++)
                                d[i + k] = d[i + k - dist];
                        i += len;
                }
                i += 40 + (size_t) r.below(700);
        }
}

static std::vector<uint8_t> make_data0(const Json &spec);

// "afin": the Adler-32 of the whole data is steered to a boundary value by adjusting bytes near the end - A (low half) with the last
// 260 bytes, B (high half) with pairs of opposite adjustments further up, which leave A alone.  afin & 3: A becomes 0 / 65520 / a value
// below 15; (afin >> 2) & 3: the same for B.  1 in 65521 random inputs has A == 0; a reduction that is off by one shows only there.
static void tune_adler(std::vector<uint8_t> &d, int afin, uint64_t s)
{
        const uint32_t M = 65521;
        size_t n = d.size();
        int ta = afin & 3, tb = (afin >> 2) & 3;
        if (n < 300 || (tb && n < 1400))
                return;
        if (tb)
                memset(d.data() + n - 1300, 128, 900);
        auto sums = [&](uint32_t &A, uint32_t &B) {
                uint64_t a = 1, b = 0;
                for (uint8_t v : d) {
                        a += v;
                        if (a >= M)
                                a -= M;
                        b += a;
                        if (b >= M)
                                b -= M;
                }
                A = (uint32_t) a;
                B = (uint32_t) b;
        };
        auto target = [&](int t, uint64_t salt) -> uint32_t { return t == 1 ? 0 : t == 2 ? M - 1 : (uint32_t) ((s ^ salt) % 15); };
        uint32_t A, B;
        if (ta) {
                for (size_t i = n - 260; i < n; i++)
                        d[i] = 0; // room to add up to 65520
                sums(A, B);
                uint32_t need = (target(ta, 0) + M - A) % M;
                for (size_t i = n; i-- > n - 260 && need;) {
                        uint32_t add = std::min<uint32_t>(need, 255u - d[i]);
                        d[i] = (uint8_t) (d[i] + add);
                        need -= add;
                }
        }
        if (tb) {
                sums(A, B);
                uint32_t rem = (target(tb, 0x5bd1) + M - B) % M;
                size_t i = n - 1300;
                while (rem) {
                        uint32_t g = std::min<uint32_t>(516, rem), dd = rem / g;
                        d[i] = (uint8_t) (d[i] + dd);
                        d[i + g] = (uint8_t) (d[i + g] - dd);
                        rem -= dd * g;
                        i++;
                }
        }
}

std::vector<uint8_t> make_data(const Json &spec)
{
        std::vector<uint8_t> d = make_data0(spec);
        if (int afin = (int) (spec.geti("afin") & 15))
                tune_adler(d, afin, (uint64_t) spec.geti("s"));
        return d;
}

static std::vector<uint8_t> make_data0(const Json &spec)
{
        int kind = (int) (((uint64_t) spec.geti("k")) % DK_NKINDS);
        uint64_t n = (uint64_t) spec.geti("n");
        if (n > (8u << 20))
                n = 8u << 20;
        uint64_t p = (uint64_t) spec.geti("p");
        Rng r((uint64_t) spec.geti("s"), "data");
        if (kind == DK_ADLERMAX) {
                // Worst case for a blocked Adler-32: the running A sum just below 65521 when a final stretch of 5552 + t bytes of 0xFF
                // begins (t = 0..16), the total length a multiple of 5552 plus t.  Any kernel that lets its last block grow, or reduces
                // too late, overflows here and nowhere else.
                uint64_t m = n / 5552, t = p % 17;
                if (m < 2)
                        m = 2;
                if (m > 12)
                        m = 12;
                n = 5552 * m + t;
                std::vector<uint8_t> d(n);
                uint64_t pre = 5552 * (m - 1);
                uint64_t sum = 1;
                for (uint64_t i = 0; i + 300 < pre; i++) {
                        d[i] = (uint8_t) r.u64();
                        sum += d[i];
                }
                uint64_t target = 65520 - r.below(r.chance(1, 2) ? 40 : 4000);
                uint64_t need = (target + 65521 * 2 - sum % 65521) % 65521; // what the last 300 bytes of the prefix must add (mod 65521)
                for (uint64_t i = pre - 300; i < pre; i++) {
                        uint64_t left = pre - i;
                        uint64_t v = std::min<uint64_t>(255, (need + left - 1) / left);
                        d[i] = (uint8_t) v;
                        need -= v;
                }
                for (uint64_t i = pre; i < n; i++)
                        d[i] = 0xff;
                return d;
        }
        if (kind == DK_PAGES) {
                // page-structured data (a database file): pages of 4-64 KiB, each an 8-byte magic from a set of two or three followed by a
                // low-entropy body.  The same bytes recur at exact page multiples (32 KiB and 64 KiB included) and callers of such data
                // tend to feed and flush page-wise.
                uint64_t P = pages_page_size(p), np = n / P;
                if (np < 2)
                        np = 2;
                if (np * P > 262144)
                        np = std::max<uint64_t>(2, 262144 / P);
                std::vector<uint8_t> d(np * P);
                uint8_t magic[3][8];
                for (auto &mg : magic)
                        for (auto &b : mg)
                                b = (uint8_t) ('A' + r.below(26));
                for (uint64_t pg = 0; pg < np; pg++) {
                        const uint8_t *mg = magic[r.below(3) ? 0 : 1 + r.below(2)];
                        uint8_t *q = d.data() + pg * P;
                        memcpy(q, mg, 8);
                        int style = (int) r.below(3);
                        uint64_t rec = 16 + r.below(200);
                        for (uint64_t i = 8; i < P; i++)
                                q[i] = style == 0 ? (uint8_t) ('a' + r.below(4)) : style == 1 ? (uint8_t) ((i % rec) * 13 + pg) : (uint8_t) (r.chance(1, 8) ? r.u64() : 0);
                }
                return d;
        }
        if (kind == DK_ALLSYMS) {
                // A block that uses the whole alphabet, the largest trees the table builders ever see: every byte value as a literal,
                // one repeated string for each of the 29 length symbols (257..285) and - with p&1 - one copy for each of the 30 distance
                // symbols.  No match finder looks for 3-byte matches; the only producer of length symbol 257 is the level-3 vector path,
                // when an 8-15 byte match ends three bytes before the end of an overlapping longer match from a more recent source: the
                // "gadget" below builds that.  Sizes itself (5-50 KiB).
                std::vector<uint8_t> d;
                auto putr = [&](uint64_t l) {
                        while (l--)
                                d.push_back((uint8_t) r.u64());
                };
                auto put = [&](const uint8_t *s, size_t l) { d.insert(d.end(), s, s + l); };
                if (p & 1) {
                        static const uint32_t base[30] = { 1,   2,   3,   4,   5,    7,    9,    13,   17,   25,   33,   49,   65,    97,    129,
                                                           193, 257, 385, 513, 769,  1025, 1537, 2049, 3073, 4097, 6145, 8193, 12289, 16385, 24577 };
                        putr(32768 + r.below(200));
                        for (int c = 29; c >= 0; c--) {
                                uint32_t hi = c == 29 ? 32768 : base[c + 1] - 1, dist = base[c] + (uint32_t) r.below(hi - base[c] + 1);
                                uint64_t len = 4 + r.below(12);
                                for (uint64_t k = 0; k < len; k++)
                                        d.push_back(d[d.size() - dist]);
                                putr(6 + r.below(8));
                        }
                }
                uint8_t mul = (uint8_t) (r.u64() | 1), add = (uint8_t) r.u64();
                for (int i = 0; i < 256; i++)
                        d.push_back((uint8_t) (i * mul + add));
                putr(64);
                {
                        uint8_t x0 = (uint8_t) r.u64(), x1 = (uint8_t) r.u64(), R[16], q, v, w, y = (uint8_t) r.u64();
                        for (auto &b : R)
                                b = (uint8_t) r.u64();
                        int ov = (int) (13 + r.below(3)) - 13; // 0 in the exact gadget; 1 or 2 vary the overlap
                        do
                                q = (uint8_t) r.u64();
                        while (q == R[13]);
                        do
                                v = (uint8_t) r.u64();
                        while (v == x1);
                        do
                                w = (uint8_t) r.u64();
                        while (w == y);
                        d.push_back(x0), d.push_back(x1), put(R, 13 - (r.chance(1, 3) ? ov : 0)), d.push_back(q), putr(24);
                        d.push_back(v), put(R, 16), d.push_back(w), putr(24);
                        d.push_back(x0), d.push_back(x1), put(R, 16), d.push_back(y), putr(24);
                }
                static const int L[] = { 4, 5, 6, 7, 8, 9, 10, 11, 13, 15, 17, 19, 23, 27, 31, 35, 43, 51, 59, 67, 83, 99, 115, 131, 163, 195, 227, 258 };
                static const int Lhi[] = { 4, 5, 6, 7, 8, 9, 10, 12, 14, 16, 18, 22, 26, 30, 34, 42, 50, 58, 66, 82, 98, 114, 130, 162, 194, 226, 257, 258 };
                for (size_t c = 0; c < sizeof L / sizeof L[0]; c++) {
                        uint8_t W[300];
                        int l = (p & 2) ? L[c] + (int) r.below(Lhi[c] - L[c] + 1) : L[c];
                        for (int i = 0; i < l; i++)
                                W[i] = (uint8_t) r.u64();
                        put(W, l), putr(12), put(W, l), putr(12);
                }
                putr((p & 4) ? r.below(3000) : 700);
                return d;
        }
        if (kind == DK_DISTSKEW) {
                // A block whose *distance* alphabet is as skewed as the code-length limit allows: 16-20 distance symbols whose match counts
                // grow by a factor of 1.62-1.9 from one to the next (Fibonacci-like or steeper), so that the unrestricted distance tree is
                // 15 or more levels deep - 15-bit distance codes, and the length-limiting pass, which ordinary data never gets near
                // (longest distance codes there: 5-10 bits).  Each unit is one planned match: L bytes copied from exactly D back, then one
                // byte that breaks it.  Sizes itself (40-300 KB); needs one large block to show (a roomy level buffer, no flush).
                static const uint32_t lo[30] = { 1,   2,   3,   4,   5,    7,    9,    13,   17,   25,   33,   49,   65,    97,    129,
                                                 193, 257, 385, 513, 769,  1025, 1537, 2049, 3073, 4097, 6145, 8193, 12289, 16385, 24577 };
                int nsym = 16 + (int) r.below(5), first = 3 + (int) r.below(20 - nsym + 4); // symbols first .. first+nsym-1, distances 4 .. ~1500
                double ratio = 1.62 + (double) r.below(29) / 100.0, c = 1.0;
                std::vector<int> order(nsym);
                for (int i = 0; i < nsym; i++)
                        order[i] = i;
                if (p & 1)
                        for (int i = nsym; i > 1; i--)
                                std::swap(order[i - 1], order[r.below(i)]);
                std::vector<uint8_t> d;
                for (int i = 0; i < nsym; i++) {
                        int sym = first + order[i];
                        uint32_t hi = sym == 29 ? 32768 : lo[sym + 1] - 1, D = lo[sym] + (uint32_t) r.below(hi - lo[sym] + 1);
                        if (D < 4)
                                D = 4;
                        uint64_t count = (uint64_t) c;
                        c *= ratio;
                        if (d.size() + count * 10 > 300000)
                                count = (300000 - std::min<size_t>(d.size(), 300000)) / 10;
                        for (uint32_t j = 0; j < D; j++)
                                d.push_back((uint8_t) r.u64());
                        for (uint64_t u = 0; u < count; u++) {
                                int L = (p & 2) ? 4 + (int) r.below(5) : 8;
                                for (int j = 0; j < L; j++)
                                        d.push_back(d[d.size() - D]);
                                uint8_t sep;
                                do
                                        sep = (uint8_t) r.u64();
                                while (sep == d[d.size() - D]);
                                d.push_back(sep);
                        }
                }
                for (int i = 0; i < 64; i++)
                        d.push_back((uint8_t) r.u64());
                return d;
        }
        if (kind == DK_LITCOPY) // sizes itself: one block of literals, the copies, a short tail
                n = (p & 1) ? 80000 + r.below(30000) : 44000 + r.below(16000);
        if (kind == DK_RARE && n < 12000) // the stretches' codes are only long in a block with thousands of other literals
                n = 12000 + r.below(50000);
        std::vector<uint8_t> d(n);
        switch (kind) {
        case DK_RANDOM:
                for (auto &b : d)
                        b = (uint8_t) r.u64();
                break;
        case DK_SYM4:
                for (auto &b : d)
                        b = (uint8_t) ('a' + (r.u64() & 3));
                break;
        case DK_PERIODIC: {
                uint64_t per = p % 1021 + 1;
                for (uint64_t i = 0; i < n; i++)
                        d[i] = (uint8_t) ((i % per) * 37 + (i % per) / 7);
                break;
        }
        case DK_ZEROS:
                break;
        case DK_FF: {
                uint64_t i = 0;
                while (i < n) {
                        uint64_t run = 1 + r.logsize(70000);
                        uint8_t v = r.chance(1, 2) ? 0xff : (uint8_t) r.u64();
                        for (uint64_t k = 0; k < run && i < n; k++)
                                d[i++] = v;
                }
                break;
        }
        case DK_LONGREP: { // a random block, repeated at distance p (p in bytes), with small edits
                uint64_t dist = p ? p : 32768;
                bool runs = spec.geti("runs") != 0; // the repeated block itself contains runs of 264-1200 equal bytes (matches longer than 258)
                uint64_t run_left = 0, next_run = runs ? 200 + r.below(1500) : ~0ull;
                uint8_t run_v = 0;
                for (uint64_t i = 0; i < n; i++) {
                        if (i >= dist && !r.chance(1, 64))
                                d[i] = d[i - dist];
                        else if (run_left) {
                                d[i] = run_v;
                                run_left--;
                        } else {
                                d[i] = (uint8_t) r.u64();
                                if (i >= next_run && i < dist) {
                                        run_left = 264 + r.below(940);
                                        run_v = (uint8_t) r.u64();
                                        next_run = i + run_left + 300 + r.below(2500);
                                }
                        }
                }
                break;
        }
        case DK_TEXT: {
                static const char *w[] = { "the ", "quick ", "brown ", "fox ", "erasure ", "parity ", "deflate ", "block ", "\n", "0123456789", "aaaaaaaa", "storage " };
                uint64_t i = 0;
                while (i < n) {
                        const char *s = w[r.below(12)];
                        for (; *s && i < n; s++)
                                d[i++] = (uint8_t) *s;
                }
                break;
        }
        case DK_MIXED: {
                uint64_t i = 0;
                while (i < n) {
                        uint64_t seg = 1 + r.logsize(40000);
                        int m = (int) r.below(3);
                        uint8_t v = (uint8_t) r.u64();
                        for (uint64_t k = 0; k < seg && i < n; k++, i++)
                                d[i] = m == 0 ? (uint8_t) r.u64() : m == 1 ? v : (uint8_t) ('a' + (r.u64() % 6));
                }
                break;
        }
        case DK_FARCOPY: // incompressible bytes with clusters of short copies from 4-32 KiB back: the longest tokens a dynamic block can hold
                for (auto &b : d)
                        b = (uint8_t) r.u64();
                far_copies(d.data(), d.size(), r.u64());
                break;
        case DK_LITCOPY: { // tens of thousands of random literals (one block's worth), then 30-60 long copies back to back from 17-29 KiB
                           // back: their length symbols are rare in the block, get the longest codes, and 16 such tokens in a row are the
                           // largest group the token encoders ever have to emit
                for (auto &b : d)
                        b = (uint8_t) r.u64();
                uint64_t lit = 30000 + r.below(12000);
                if (p & 2) {
                        // second layout: the copies' sources are one 4 KiB region at the end of the literals, and 16-19 KiB of near matches
                        // (byte runs, short repeats at small distances) lie between it and the copies: the distance tree then holds near
                        // and far symbols, which makes the far symbols' codes - and with them every one of the far tokens - longer
                        lit = 20000 + r.below(22000);
                        uint64_t M = 16200 + r.below(2500), i = lit, endM = lit + M;
                        int style = (int) r.below(3);
                        while (i < endM && i < n) {
                                uint64_t seg = style == 0 ? endM - i : 20 + r.below(600);
                                if (seg > endM - i)
                                        seg = endM - i;
                                if (seg > n - i)
                                        seg = n - i;
                                uint64_t dist = style == 0 || r.chance(1, 2) ? 1 : 1 + r.logsize(4000);
                                if (style == 2 && r.chance(1, 3))
                                        dist = 0; // stays literal
                                for (uint64_t k = 0; k < seg && dist; k++)
                                        d[i + k] = k < 4 && dist == 1 ? d[i + k] : d[i + k - dist];
                                i += seg;
                        }
                        uint64_t budget = 32768 - 4096 - M;
                        for (int c = (int) (30 + r.below(31)); c > 0 && i + 260 < n; c--) {
                                uint64_t len = 131 + r.below(120), src = lit - 4096 + r.below(4096 - 260);
                                if (len > budget)
                                        break;
                                budget -= len;
                                for (uint64_t k = 0; k < len; k++)
                                        d[i + k] = d[src + k];
                                i += len;
                        }
                        if (r.chance(1, 2) && i + 16 < n)
                                d.resize(i + 16);
                        break;
                }
                if (lit + 2000 < n) {
                        uint64_t i = lit;
                        for (int c = (int) ((p & 1) ? 60 + r.below(200) : 30 + r.below(31)); c > 0 && i < n; c--) {
                                uint64_t len = 131 + r.below(120), dist = 17000 + r.below(12000);
                                if (len > n - i)
                                        len = n - i;
                                for (uint64_t k = 0; k < len; k++)
                                        d[i + k] = d[i + k - dist];
                                i += len;
                        }
                }
                break;
        }
        case DK_SKEW: { // symbol k with probability ~2^-k: the unrestricted Huffman tree is deeper than 15, so code-length limiting runs
                uint64_t perm = r.u64();
                for (auto &b : d) {
                        uint64_t x = r.u64();
                        int k = x ? __builtin_ctzll(x) : 63;
                        if (k > 40)
                                k = 40;
                        b = (uint8_t) ((k * 37 + perm) & 0xff);
                }
                break;
        }
        case DK_RARE: { // word-like text over a small alphabet with one to four stretches (32-160 bytes) of byte values that occur nowhere
                        // else (a binary header inside a log): those literals get the longest codes of the block, and a stretch of them is
                        // the densest run of bits per token that stays below the token encoders' long-code limit
                std::vector<std::vector<uint8_t>> words(20 + r.below(200));
                for (auto &w : words) {
                        w.resize(2 + r.below(9));
                        for (auto &b : w)
                                b = (uint8_t) ('a' + r.below(26));
                }
                uint64_t i = 0;
                while (i < n) {
                        const auto &w = words[r.below(words.size())];
                        for (size_t k = 0; k < w.size() && i < n; k++)
                                d[i++] = w[k];
                        if (i < n)
                                d[i++] = r.chance(1, 12) ? '\n' : ' ';
                }
                // the stretches draw from a set of 16-128 values: how often each occurs (against the size of the block) decides
                // whether the literals' codes come out at 10 or at 15 bits
                static const uint32_t Ss[] = { 16, 32, 48, 64, 96, 128 };
                uint32_t S = r.pick(Ss);
                bool once = r.chance(2, 3); // every value in turn (the longest codes)
                uint8_t next = 0;
                for (int st = (int) (1 + r.below(4)); st > 0 && n > 400; st--) {
                        uint64_t len = 32 + r.below(129), at = r.below(n - len);
                        for (uint64_t k = 0; k < len; k++)
                                d[at + k] = (uint8_t) (0x80 + (once ? next++ % S : r.below(S)));
                }
                break;
        }
        case DK_RUNS: {
                uint64_t i = 0;
                while (i < n) {
                        uint64_t run = 1 + r.below(300);
                        uint8_t v = (uint8_t) r.below(4);
                        for (uint64_t k = 0; k < run && i < n; k++)
                                d[i++] = v;
                }
                break;
        }
        }
        return d;
}

// C11: now and then the Adler-32 worst case, in a zlib-wrapped session
void maybe_adler_worst_case(Rng &r, const std::string &focus, Json &data)
{
        if (!r.chance(1, focus == "C11" ? 8 : 60))
                return;
        data.set("k", (int) DK_ADLERMAX).set("n", (uint64_t) (11104 + r.below(50000))).set("p", (uint64_t) r.below(1 << 16));
}

Json gen_data_spec(Rng &r, uint64_t maxlen, int bias)
{
        Json j = Json::obj();
        int k;
        uint64_t n, p = r.below(2000);
        if (bias == 1) {
                static const int ks[] = { DK_RANDOM, DK_RANDOM, DK_RANDOM, DK_ZEROS, DK_MIXED, DK_SYM4 };
                k = r.pick(ks);
                uint64_t c = r.below(10);
                if (c == 0)
                        n = 0;
                else if (c < 3) {
                        uint64_t m = 1 + r.below(3);
                        int64_t v = (int64_t) (65535 * m) + r.range(-3, 3);
                        n = v < 0 ? 0 : (uint64_t) v;
                } else
                        n = r.logsize(maxlen);
        } else if (bias == 2) {
                k = DK_LONGREP;
                n = maxlen / 2 + r.below(maxlen / 2 + 1);
        } else {
                k = (int) r.below(DK_NKINDS);
                n = r.chance(1, 12) ? r.below(maxlen + 1) : r.logsize(maxlen);
                if (k == DK_LONGREP) {
                        static const uint32_t ds[] = { 255, 256, 257, 511, 512, 513, 4095, 4096, 4097, 8191, 8192, 8193, 32766, 32767, 32768, 32769, 32770 };
                        p = r.pick(ds);
                }
        }
        if (n > maxlen)
                n = maxlen;
        if (const char *fk = getenv("SIM_FORCE_KIND")) // diagnostic only: steer a hand-run batch to one data kind
                k = atoi(fk);
        j.set("k", k).set("n", n).set("s", r.u64() >> 16).set("p", p);
        if (r.chance(1, 40))
                j.set("afin", (int) (1 + r.below(15)));
        return j;
}

uint32_t gen_chunk(Rng &r, int mode, uint32_t big)
{
        static const uint32_t edge[] = { 0, 1, 2, 3, 7, 8, 9, 15, 16, 17, 31, 32, 33, 47, 48, 49, 55, 56, 57, 63, 64, 65, 255, 256, 257, 258, 259, 287, 288, 289, 327, 328, 329, 65535, 65536, 65537 };
        switch (mode % 6) {
        case 0:
                return (uint32_t) r.below(11); // tiny incl. 0
        case 1:
                return 1;
        case 2:
                return r.pick(edge);
        case 3:
                return (uint32_t) (1 + r.logsize(4096));
        case 4:
                return (uint32_t) (1 + r.logsize(big));
        default:
                return big;
        }
}
