// mem.h — memory seam: every byte ISA-L can touch lives in guard-paged simulator slots.
#pragma once
#include "base.h"
#include <setjmp.h>
#include <signal.h>
#include <deque>

enum Placement { PLACE_END = 0, PLACE_START = 1 }; // data abuts the guard page after / before it

struct Slot {
        int id = -1;
        uint8_t *map = nullptr; // first data page (the guard page before it is map-4096)
        size_t pages = 0;       // number of data pages
        uint8_t *data = nullptr;
        size_t len = 0;
        int state = 0; // 0 free, 1 live, 2 released
        const char *label = "";
        uint8_t canary = 0;
        int placement = 0;
};

enum FaultClass { FC_NONE = 0, FC_GUARD_AFTER, FC_GUARD_BEFORE, FC_RELEASED, FC_SLACK, FC_LIBDATA, FC_STRAY, FC_ABORT, FC_UD, FC_HANG };
struct FaultInfo {
        int cls = FC_NONE;
        int slot_id = -1;
        char label[24] = {0};
        long offset = 0; // offset of the faulting address relative to the slot's data start
        int is_write = 0;
        char sym[64] = {0}; // faulting code symbol (library) if known
};

struct Arena {
        uint8_t *base = nullptr;
        size_t size = 0, pos = 0, run_start = 0;
        std::deque<Slot> slots; // slots of the current run (deque: pointers stay valid)
        void init(size_t bytes);
        // begin a run: releases everything from the previous run, wraps the ring if needed
        void run_begin(size_t skip_pages = 0, size_t sub = 0);
        uint64_t budget_hits = 0; // allocations refused because the run's page budget was used up (the twin runs void their comparison then)
        size_t sub_off = 0; // byte displacement of every buffer inside its pages (address twin only; costs up to 63 bytes of guard tightness)
        void run_end();
        // allocate len bytes; align_off only for PLACE_START (offset into first page, 0..63);
        // for PLACE_END `slack` bytes (0..63) can be left between data end and the guard (default 0).
        // Returns nullptr if the run exhausted its budget (caller ends the run as "budget").
        Slot *alloc(size_t len, int placement, const char *label, uint64_t fill_seed, unsigned align = 1);
        void release(Slot *s);           // PROT_NONE: any later access faults and is classified
        bool canary_ok(const Slot *s) const; // unguarded side untouched?
        bool classify(void *addr, FaultInfo &fi) const;
};
extern Arena g_arena;

// A source region of 4 GiB + 1 MiB (lazily mapped, never committed beyond the bytes written into it; fixed address): the one place
// where a caller can truthfully declare avail_in close to 2^32.  Everything behind the bytes the caller wrote reads as zero.
uint8_t *giant_source(size_t used);   // returns the base; `used` bytes at its start will be written by the caller
void giant_source_reset();            // give the touched pages back (run_begin)

// Fault catching.  Usage:
//   FaultInfo fi; if (GUARDED_CALL(fi, { ...library call... })) { fault happened, fi filled }
struct GuardCtx {
        sigjmp_buf jb;
        volatile int armed;
        FaultInfo fi;
};
extern __thread GuardCtx *t_guard;
extern volatile int g_watchdog_limit; // ticks (1.5 s of CPU time each) one guarded call may last
extern volatile uint64_t g_call_seq; // bumped at every guarded call; the watchdog sees a call that never returns
void mem_install_handlers();
// hook for other seams (cpu/sched) to look at SIGSEGV first; return true if handled
typedef bool (*segv_hook_t)(int sig, siginfo_t *si, void *uc);
extern segv_hook_t g_segv_hook;
extern void (*g_crash_hook)(const char *sym, void *addr); // library crashed outside any guarded call: report and exit

extern __thread uint64_t t_stack_word; // dead-stack seam (regs.cc): the word every dead stack slot holds at a library call
void scribble_stack();
#define GUARDED(gc, ...)                                                                          \
        ({                                                                                         \
                int _faulted = 0;                                                                  \
                GuardCtx *_prev = t_guard;                                                         \
                t_guard = &(gc);                                                                   \
                if (sigsetjmp((gc).jb, 0) == 0) {                                                  \
                        g_call_seq = g_call_seq + 1;                                               \
                        (gc).armed = 1;                                                            \
                        scribble_stack();                                                          \
                        __VA_ARGS__;                                                               \
                        (gc).armed = 0;                                                            \
                } else {                                                                           \
                        (gc).armed = 0;                                                            \
                        _faulted = 1;                                                              \
                }                                                                                  \
                t_guard = _prev;                                                                   \
                _faulted;                                                                          \
        })

void fill_garbage(uint8_t *p, size_t n, uint64_t seed);
const char *fault_class_name(int c);
// library image info (RW segment, symbols) — filled by libinfo_init()
void reach_arm();  // diagnostic: SIM_REACH=<file>
void reach_dump();
struct LibSym {
        uintptr_t addr;
        size_t size;
        std::string name;
        char type;
};
struct LibInfo {
        uintptr_t base = 0, text_lo = 0, text_hi = 0, rw_lo = 0, rw_hi = 0;
        std::vector<LibSym> syms; // sorted by addr
        const LibSym *find(uintptr_t a) const;
        const LibSym *byname(const char *n) const;
        std::string path;
};
extern LibInfo g_lib;
bool libinfo_init();
