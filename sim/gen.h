// gen.h — seeded data generators and common plan helpers
#pragma once
#include "base.h"

// data spec: {"k":kind,"n":len,"s":seed,"p":param}
enum DataKind { DK_RANDOM = 0, DK_SYM4, DK_PERIODIC, DK_ZEROS, DK_FF, DK_LONGREP, DK_TEXT, DK_MIXED, DK_RUNS, DK_FARCOPY, DK_SKEW, DK_ADLERMAX, DK_LITCOPY, DK_PAGES, DK_ALLSYMS, DK_RARE, DK_DISTSKEW, DK_NKINDS };
std::vector<uint8_t> make_data(const Json &spec);
// overlay clusters of back-to-back short copies from far back (long distance extra bits, rare length symbols) on d
void far_copies(uint8_t *d, size_t n, uint64_t seed);
uint64_t pages_page_size(uint64_t p); // DK_PAGES: page size chosen by the spec's p
Json gen_data_spec(Rng &r, uint64_t maxlen, int bias = 0);
void maybe_adler_worst_case(Rng &r, const std::string &focus, Json &data); // C11: now and then the Adler-32 worst case // bias: 0 general, 1 incompressible/empty, 2 long-range repeats around p
// sizes the I/O seam likes
uint32_t gen_chunk(Rng &r, int mode, uint32_t big);
// effective window bits
static inline int eff_hist_bits(int hb) { return (hb <= 0 || hb > 15) ? 15 : hb; }
