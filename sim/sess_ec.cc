// sess_ec.cc — message seam for C13: per-source parity-update messages are reordered and duplicated by
// the plan before they reach a "parity node" whose apply function is the real ec_encode_data_update /
// gf_vect_mad.  Oracle: bit-serial GF(2^8) matrix product over the sources delivered an odd number of times.
#include "sim.h"
#include "erasure_code.h"
#include "gf_vect_mul.h"

namespace
{
struct EcSession {
        const Json &plan;
        RunResult &rr;
        Hist &h;
        GuardCtx gc;
        EcSession(const Json &p, RunResult &r, Hist &hh) : plan(p), rr(r), h(hh) {}

        void run()
        {
                int k = 1 + (int) ((uint64_t) plan.geti("k") % 32);
                int rows = 1 + (int) ((uint64_t) plan.geti("rows") % 14);
                int len = (int) ((uint64_t) plan.geti("len") % 140000);
                int apply = (int) ((uint64_t) plan.geti("apply") % 3); // 0 ec_encode_data_update, 1 gf_vect_mad per row, 2 mixed
                if (apply && len < 64)
                        apply = 0; // gf_vect_mad documents len >= 64
                const Json &m = plan.at("mem");
                uint64_t fill = (uint64_t) m.geti("fill"), regs = (uint64_t) m.geti("regs");
                int place = (int) (m.geti("place") & 1);
                Rng r((uint64_t) plan.geti("s"), "ec.data");
                // ---- coefficients and tables
                std::vector<uint8_t> a((size_t) rows * k);
                int mk = (int) ((uint64_t) plan.geti("matrix") % 3);
                if (mk == 0) {
                        std::vector<uint8_t> full((size_t) (rows + k) * k);
                        gf_gen_cauchy1_matrix(full.data(), rows + k, k);
                        memcpy(a.data(), full.data() + (size_t) k * k, (size_t) rows * k);
                } else
                        for (auto &c : a)
                                c = mk == 1 ? (uint8_t) r.u64() : (uint8_t) r.below(3); // incl. 0 and 1 coefficients
                Slot *sa = g_arena.alloc(a.size(), place, "coeffs", 0, 1);
                // the expanded tables may sit at any address: the API states no alignment for g_tbls (toff = 0 mostly, else 1..31)
                size_t toff = (size_t) ((uint64_t) plan.geti("toff") % 32);
                Slot *st = g_arena.alloc((size_t) 32 * k * rows + (toff ? 32 : 0), PLACE_END, "gftbls", fill + 1, 1); // toff != 0: 32 - toff slack bytes follow the table
                if (!sa || !st)
                        return;
                memcpy(sa->data, a.data(), a.size());
                scramble_regs(regs);
                if (GUARDED(gc, ec_init_tables(k, rows, sa->data, st->data + toff))) {
                        report_fault(rr, h, gc.fi, "ec_init_tables");
                        return;
                }
                // gf_vect_mad is documented to take "tables generated from coding coefficients in ec_init_tables()", 32*vec bytes per row.
                // madtbl 1: exactly that (the dispatched ec_init_tables above); 0: the classic 32-byte tables of ec_init_tables_base
                bool madtbl = plan.geti("madtbl") != 0;
                // classic 32-byte tables for gf_vect_mad (documented: tables generated from the coefficients, 32*vec bytes per row)
                Slot *st32 = g_arena.alloc((size_t) 32 * k * rows + (toff ? 32 : 0), PLACE_END, "gftbls32", fill + 2, 1);
                if (!st32)
                        return;
                if (GUARDED(gc, ec_init_tables_base(k, rows, sa->data, st32->data + toff))) {
                        report_fault(rr, h, gc.fi, "ec_init_tables_base");
                        return;
                }
                // ---- sources and parity blocks, each in its own exact-size slot with plan-chosen placement
                std::vector<Slot *> src(k), par(rows);
                std::vector<std::vector<uint8_t>> srcdata(k), model(rows, std::vector<uint8_t>(len, 0));
                for (int i = 0; i < k; i++) {
                        src[i] = g_arena.alloc(len, (i + place) & 1 ? PLACE_START : PLACE_END, "source", 0, 1);
                        if (!src[i])
                                return;
                        srcdata[i].resize(len);
                        // source shapes: random; or record-structured (16-byte lanes that are all zero, all non-zero, all 0xFF or random:
                        // empty records next to full ones), which is what a kernel's "skip the zero vector" shortcut keys on
                        int shape = (int) ((uint64_t) plan.geti("srcshape") % 4);
                        uint64_t lanes = r.u64();
                        for (size_t q = 0; q < srcdata[i].size(); q++) {
                                if ((q & 15) == 0 && (q & 1023) == 0)
                                        lanes = r.u64();
                                int lane = shape == 0 ? 3 : (int) ((lanes >> (2 * ((q >> 4) & 31))) & 3);
                                if (shape == 2 && lane == 3)
                                        lane = (int) ((q >> 4) & 1); // strict alternation zero / non-zero
                                uint8_t v = (uint8_t) r.u64();
                                srcdata[i][q] = lane == 0 ? 0 : lane == 1 ? (uint8_t) (v | 1) : lane == 2 ? 0xff : v;
                        }
                        // two more shapes (values 4, 5 of the 6 - plans written before them keep their meaning below 4):
                        // sparse deltas - a zero background with small groups of bytes (0x80, 0x01, 0xff or random) 1-32 apart, what an
                        // update of a mostly unchanged block looks like; and arrays of small signed 64-bit integers in which x and -x
                        // often stand next to each other (word-wise sums and xors of neighbours vanish on such data, bytes do not)
                        int shape6 = (int) ((uint64_t) plan.geti("srcshape") % 6);
                        if (shape6 == 4) {
                                std::fill(srcdata[i].begin(), srcdata[i].end(), 0);
                                static const int strides[] = { 1, 2, 4, 8, 16, 32 };
                                static const uint8_t vals[] = { 0x80, 0x01, 0xff };
                                for (size_t q = r.below(40); q < srcdata[i].size(); q += 1 + r.below(200)) {
                                        int st = r.pick(strides), n = (int) (1 + r.below(3));
                                        uint8_t v = r.chance(1, 4) ? (uint8_t) (r.u64() | 1) : r.pick(vals);
                                        for (int g = 0; g < n && q + (size_t) g * st < srcdata[i].size(); g++)
                                                srcdata[i][q + (size_t) g * st] = v;
                                }
                        } else if (shape6 == 5) {
                                uint64_t prev = 0;
                                for (size_t q = 0; q + 8 <= srcdata[i].size(); q += 8) {
                                        uint64_t v = r.chance(1, 4) && prev ? (uint64_t) 0 - prev : r.chance(1, 3) ? 0 : (r.chance(1, 2) ? r.below(1000) : r.u64() >> (8 * r.below(8)));
                                        if (r.chance(1, 8))
                                                v = (uint64_t) 0 - v;
                                        memcpy(&srcdata[i][q], &v, 8);
                                        prev = v;
                                }
                        }
                        memcpy(src[i]->data, srcdata[i].data(), len);
                }
                for (int j = 0; j < rows; j++) {
                        par[j] = g_arena.alloc(len, (j + place) & 1 ? PLACE_END : PLACE_START, "parity", fill + 10 + j, 1);
                        if (!par[j])
                                return;
                        memset(par[j]->data, 0, len); // "starting from zeroed parity blocks"
                }
                Slot *sp = g_arena.alloc(sizeof(void *) * rows, PLACE_END, "parity_ptrs", 0, 8);
                if (!sp)
                        return;
                unsigned char **coding = (unsigned char **) sp->data;
                for (int j = 0; j < rows; j++)
                        coding[j] = par[j]->data;
                h.rec("ec_open", { k, rows, len, apply, mk });
                h.sigmix(k * 10000 + rows * 100 + apply * 10 + mk + (size_class(len) << 20));
                // ---- message delivery: every source once, in plan order, plus duplicate pairs
                std::vector<int> count(k, 0);
                std::vector<int> order;
                for (auto &e : plan.at("msgs").a)
                        order.push_back((int) ((uint64_t) e.i % k));
                // make the multiset legal: every source an odd number of times at the end (append what is missing)
                {
                        std::vector<int> c(k, 0);
                        for (int s : order)
                                c[s]++;
                        for (int s = 0; s < k; s++)
                                if ((c[s] & 1) == 0)
                                        order.push_back(s);
                }
                int prev = -1;
                uint32_t delivered = 0;
                for (int s : order) {
                        if (count[s] > 0)
                                COUNT("msg.duplicate");
                        if (s < prev)
                                COUNT("msg.reorder");
                        prev = s;
                        count[s]++;
                        delivered++;
                        h.calls++;
                        int how = apply == 2 ? (int) ((delivered + s) & 1) : apply;
                        scramble_regs(regs ? regs + delivered : 0);
                        if (how == 0) {
                                if (GUARDED(gc, ec_encode_data_update(len, k, rows, s, st->data + toff, src[s]->data, coding))) {
                                        report_fault(rr, h, gc.fi, strf("ec_encode_data_update(len %d, k %d, rows %d, vec_i %d)", len, k, rows, s).c_str());
                                        return;
                                }
                        } else {
                                for (int j = 0; j < rows; j++)
                                        if (GUARDED(gc, gf_vect_mad(len, k, s, (madtbl ? st->data : st32->data) + toff + (size_t) 32 * k * j, src[s]->data, par[j]->data))) {
                                                report_fault(rr, h, gc.fi, strf("gf_vect_mad(len %d, vec %d, vec_i %d) row %d", len, k, s, j).c_str());
                                                return;
                                        }
                        }
                        // reference: parity_j ^= a[j][s] * source_s
                        for (int j = 0; j < rows; j++) {
                                uint8_t c = a[(size_t) j * k + s];
                                if (c == 0)
                                        continue;
                                uint8_t mul[256];
                                for (int v = 0; v < 256; v++)
                                        mul[v] = ref_gf_mul(c, (uint8_t) v);
                                for (int b = 0; b < len; b++)
                                        model[j][b] ^= mul[srcdata[s][b]];
                        }
                        uint64_t ph = 0;
                        for (int j = 0; j < rows; j++) {
                                if (memcmp(par[j]->data, model[j].data(), len)) {
                                        int b = 0;
                                        while (par[j]->data[b] == model[j][b])
                                                b++;
                                        rr.fail(madtbl && how != 0 ? "C13.mad_dispatched_tables" : "C13.update_wrong", strf("after delivery %u (source %d, count %d, %s%s): parity row %d byte %d is %02x, GF(2^8) reference %02x (k %d rows %d len %d)", delivered, s, count[s], how == 0 ? "ec_encode_data_update" : "gf_vect_mad", madtbl && how != 0 ? " with the tables ec_init_tables() produced" : "", j, b, par[j]->data[b], model[j][b], k, rows, len));
                                        return;
                                }
                                ph = hash_bytes(par[j]->data, len, ph);
                        }
                        h.rec("deliver", { s, count[s], how, (int64_t) ph });
                        h.sigmix((uint64_t) how * 31 + (count[s] > 1 ? 7 : 0) + (s < prev ? 3 : 0));
                        if (count[s] > 1)
                                h.unusual++;
                        for (int i = 0; i < k; i++)
                                if (!g_arena.canary_ok(src[i]) || memcmp(src[i]->data, srcdata[i].data(), len)) {
                                        rr.fail("C13.source_modified", strf("source block %d changed during delivery %u", i, delivered));
                                        return;
                                }
                        for (int j = 0; j < rows; j++)
                                if (!g_arena.canary_ok(par[j])) {
                                        rr.fail("C05.canary", strf("bytes outside parity block %d changed", j));
                                        return;
                                }
                }
                if (delivered > (uint32_t) k)
                        h.unusual++;
                // ---- end: equals the full encode of all sources with the same tables
                Slot *ssp = g_arena.alloc(sizeof(void *) * k, PLACE_END, "source_ptrs", 0, 8), *sfp = g_arena.alloc(sizeof(void *) * rows, PLACE_END, "full_ptrs", 0, 8);
                if (!ssp || !sfp)
                        return;
                unsigned char **sptr = (unsigned char **) ssp->data, **fptr = (unsigned char **) sfp->data;
                std::vector<Slot *> full(rows);
                for (int i = 0; i < k; i++)
                        sptr[i] = src[i]->data;
                for (int j = 0; j < rows; j++) {
                        full[j] = g_arena.alloc(len, PLACE_END, "full_parity", fill + 50 + j, 1);
                        if (!full[j])
                                return;
                        fptr[j] = full[j]->data;
                }
                h.calls++;
                if (GUARDED(gc, ec_encode_data(len, k, rows, st->data + toff, sptr, fptr))) {
                        report_fault(rr, h, gc.fi, "ec_encode_data");
                        return;
                }
                for (int j = 0; j < rows; j++)
                        if (memcmp(full[j]->data, par[j]->data, len)) {
                                rr.fail("C13.update_vs_full", strf("parity row %d after all updates differs from ec_encode_data over all sources (k %d rows %d len %d)", j, k, rows, len));
                                return;
                        }
                // constant multiply routine (len and buffers aligned to 32 as documented)
                if (len >= 32) {
                        int l32 = len & ~31;
                        Slot *ms = g_arena.alloc(l32, PLACE_END, "mul_src", 0, 32), *md = g_arena.alloc(l32, PLACE_END, "mul_dst", fill + 90, 32), *mt = g_arena.alloc(32, PLACE_END, "mul_tbl", fill + 91, 1);
                        if (!ms || !md || !mt)
                                return;
                        uint8_t c = a[0];
                        memcpy(ms->data, srcdata[0].data(), l32);
                        int mret = 0;
                        if (GUARDED(gc, {
                                    gf_vect_mul_init(c, mt->data);
                                    mret = gf_vect_mul(l32, mt->data, ms->data, md->data);
                            })) {
                                report_fault(rr, h, gc.fi, "gf_vect_mul");
                                return;
                        }
                        for (int b = 0; b < l32; b++)
                                if (mret != 0 || md->data[b] != ref_gf_mul(c, srcdata[0][b])) {
                                        rr.fail("C13.vect_mul", strf("gf_vect_mul(len %d, c %02x) returned %d; byte %d is %02x, reference %02x", l32, c, mret, b, md->data[b], ref_gf_mul(c, srcdata[0][b])));
                                        return;
                                }
                }
                h.rec("ec_end", { delivered });
                COUNT("run.ec_ok");
        }
};
} // namespace

static void exec_ec(const Json &plan, RunResult &rr, Hist &h)
{
        EcSession s(plan, rr, h);
        s.run();
        // a kernel variant that faults on arguments the other variants handle (a wild or misaligned access that is not an overrun of a
        // declared buffer) has not "given the same bytes in every variant" either
        if (rr.violated() && rr.oracle == "C05.stray")
                rr.alt = "C13";
}

static Json gen_ec(Rng &r0, const std::string &focus, int tier)
{
        Rng r(r0.u64(), "ec.plan");
        Json p = Json::obj();
        p.set("prof", "ec").set("focus", focus);
        int k = (int) r.below(32);
        static const int lens[] = { 0, 1, 15, 16, 17, 31, 32, 33, 63, 64, 65, 95, 127, 128, 129, 191, 255, 256, 257, 511, 512, 513, 1000, 4096, 4097 };
        p.set("k", k).set("rows", (int) r.below(14)).set("len", r.chance(1, 2) ? r.pick(lens) : (int) r.logsize(8999)).set("apply", (int) r.below(3)).set("matrix", (int) r.below(3)).set("s", r.u64() >> 16).set("srcshape", r.chance(1, 2) ? 0 : (int) (1 + r.below(5))).set("toff", r.chance(2, 3) ? 0 : (int) (r.chance(1, 2) ? 8 * (1 + r.below(3)) : 1 + r.below(31)));
        if (r.chance(1, 20)) { // block lengths around and beyond 2^16 and 2^17 (16-bit counters, unrolled-loop remainders far from the start); few sources
                static const int longs[] = { 65535, 65536, 65537, 65599, 65600, 70000, 98304, 131071, 131072, 131073 };
                k = (int) r.below(7);
                p.set("k", k).set("len", r.chance(1, 2) ? r.pick(longs) : (int) (65536 + r.below(70000)));
        }
        // delivery order: a permutation of the sources with duplicate pairs injected
        std::vector<int> order;
        for (int i = 0; i <= k; i++)
                order.push_back(i);
        int mode = (int) r.below(3); // 0 in order, 1 reversed, 2 shuffled
        if (mode == 1)
                std::reverse(order.begin(), order.end());
        if (mode == 2)
                for (size_t i = order.size(); i > 1; i--)
                        std::swap(order[i - 1], order[r.below(i)]);
        int dups = r.chance(1, 2) ? 0 : (int) (1 + r.below(4));
        for (int d = 0; d < dups; d++) {
                int s = (int) r.below(k + 1);
                order.insert(order.begin() + r.below(order.size() + 1), s);
                order.insert(order.begin() + r.below(order.size() + 1), s);
        }
        Json msgs = Json::arr();
        for (int s : order)
                msgs.push(s);
        p.set("msgs", msgs);
        Json mem = Json::obj();
        mem.set("place", (int) r.below(2)).set("fill", r.u64() >> 24).set("regs", r.chance(1, 3) ? 0 : r.u64() >> 24).set("skip", r.chance(1, 2) ? 0 : (int) r.below(4096));
        p.set("mem", mem);
        maybe_swarm_cpu(r, p, 1, 4);
        // the documented pairing ec_init_tables() + gf_vect_mad(): while finding F18 is open only under a simulated CPU without GFNI
        // (there ec_init_tables resolves to the 32-byte form)
        {
                bool open18 = std::find(g_avoid.begin(), g_avoid.end(), "F18") != g_avoid.end();
                const Json *cpu = p.find("cpu");
                bool nogfni = cpu && !(((uint64_t) cpu->geti("l7_ecx") >> 8) & 1);
                p.set("madtbl", (int) ((!open18 || nogfni) && r.chance(1, 3)));
        }
        (void) tier;
        return p;
}

extern const Profile prof_ec;
const Profile prof_ec = { "ec", gen_ec, exec_ec };
