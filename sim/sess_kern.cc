// sess_kern.cc — stateless kernels called through the dispatcher on guard-abutted buffers of plan-chosen
// length and placement (C05's "every entry point" clause, sampled), with their results recorded in the history so
// that the CPU seam (C16 "all choices agree") and the scheduler seam (C15 "interleaved == serial") can compare them.
// The only verdict issued here besides memory discipline is "dispatched result == portable base result" (C16).
#include "sim.h"
#include "crc.h"
#include "crc64.h"
#include "raid.h"
#include "erasure_code.h"
#include "mem_routines.h"
#include "igzip_lib.h"
#include "gf_vect_mul.h"

extern "C" uint32_t crc32_iscsi_base(unsigned char *buffer, int len, unsigned int crc_init);
extern "C" uint32_t adler32_base(uint32_t init, const unsigned char *buf, uint64_t len);
extern "C" int xor_gen_base(int vects, int len, void **array);
extern "C" int pq_gen_base(int vects, int len, void **array);
extern "C" int xor_check_base(int vects, int len, void **array);
extern "C" int pq_check_base(int vects, int len, void **array);
extern "C" int mem_zero_detect_base(void *buf, size_t n);

void (*g_kern_yield)(void *) = nullptr; // scheduler seam: called at every API-call boundary
__thread void *t_kern_yield_arg = nullptr;
int g_kern_portable = 0; // 1: keep only implementation-independent observables in the history (C16 cross-configuration comparison)

namespace
{
typedef uint64_t (*crc64_fn)(uint64_t, const unsigned char *, uint64_t);
struct Crc64Pair {
        const char *name;
        crc64_fn fn, base;
};
const Crc64Pair crc64s[8] = {
        { "crc64_ecma_refl", crc64_ecma_refl, crc64_ecma_refl_base },       { "crc64_ecma_norm", crc64_ecma_norm, crc64_ecma_norm_base },
        { "crc64_iso_refl", crc64_iso_refl, crc64_iso_refl_base },          { "crc64_iso_norm", crc64_iso_norm, crc64_iso_norm_base },
        { "crc64_jones_refl", crc64_jones_refl, crc64_jones_refl_base },    { "crc64_jones_norm", crc64_jones_norm, crc64_jones_norm_base },
        { "crc64_rocksoft_refl", crc64_rocksoft_refl, crc64_rocksoft_refl_base }, { "crc64_rocksoft_norm", crc64_rocksoft_norm, crc64_rocksoft_norm_base },
};

struct Kern {
        const Json &plan;
        RunResult &rr;
        Hist &h;
        GuardCtx gc;
        uint64_t fill = 0, regs = 0;
        uint32_t opn = 0;
        Kern(const Json &p, RunResult &r, Hist &hh) : plan(p), rr(r), h(hh) {}

        Slot *buf(size_t len, int place, const char *label, Rng &r, unsigned align = 1, bool zero = false)
        {
                Slot *s = g_arena.alloc(len, place & 1 ? PLACE_START : PLACE_END, label, 0, align);
                if (!s)
                        return nullptr;
                if (zero)
                        memset(s->data, 0, len);
                else {
                        for (size_t i = 0; i < len; i++)
                                s->data[i] = (uint8_t) r.u64();
                        if (r.chance(1, 3)) { // record-structured data: 16-byte lanes all zero / all non-zero / all 0xFF / random
                                uint64_t lanes = r.u64();
                                for (size_t i = 0; i < len; i++) {
                                        if ((i & 511) == 0)
                                                lanes = r.u64();
                                        int lane = (int) ((lanes >> (2 * ((i >> 4) & 31))) & 3);
                                        s->data[i] = lane == 0 ? 0 : lane == 1 ? (uint8_t) (s->data[i] | 1) : lane == 2 ? 0xff : s->data[i];
                                }
                        }
                }
                return s;
        }
        bool fault(const char *what)
        {
                report_fault(rr, h, gc.fi, what);
                if (t_iu_used && rr.oracle.compare(0, 4, "C05.") == 0) {
                        rr.oracle = "C05.int_upper_half";
                        rr.detail = strf("int argument passed with %08x in the upper half of its register (mask %x): ", t_iu.dirt, t_iu.mask) + rr.detail;
                }
                return false;
        }
        void disagree(const char *fn, uint64_t got, uint64_t want, size_t len)
        {
                if (t_iu_used) {
                        rr.fail("C05.int_upper_half", strf("%s(len %zu) with %08x in the upper half of an int argument register (mask %x): result %llx, with clean registers %llx - the function used more than its arguments declare", fn, len, t_iu.dirt, t_iu.mask, (unsigned long long) got, (unsigned long long) want));
                        return;
                }
                rr.fail("C16.kernel_disagrees_with_base", strf("%s(len %zu): dispatched result %llx, portable base implementation %llx", fn, len, (unsigned long long) got, (unsigned long long) want));
        }

        bool op(const Json &o)
        {
                int kind = (int) ((uint64_t) o.ai(0) % 12);
                size_t len = (size_t) ((uint64_t) o.ai(1) % 70000);
                int place = (int) o.ai(2);
                uint64_t seed = (uint64_t) o.ai(3);
                int sub = (int) ((uint64_t) o.ai(4) % 64);
                Rng r(seed, "kern.data");
                t_iu = IntUpper();
                t_iu_used = false;
                if (o.a.size() > 5 && o.a[5].a.size() >= 3) {
                        t_iu.dirt = (uint32_t) o.a[5].ai(0);
                        t_iu.mask = (uint32_t) o.a[5].ai(1) & 15;
                        t_iu.all = o.a[5].ai(2) != 0;
                        if (t_iu.dirt)
                                COUNT("abi.ops_with_dirty_int_registers");
                }
                opn++;
                if (len < 64 || (len & 63))
                        h.unusual++; // a vector-width remainder next to a guard page
                h.calls++;
                scramble_regs(regs ? regs + opn : 0);
                switch (kind) {
                case 0: { // CRC16 / CRC32 / Adler
                        Slot *s = buf(len, place, "crc_buf", r);
                        if (!s)
                                return false;
                        uint64_t got = 0, want = 0;
                        uint32_t init = (uint32_t) r.u64();
                        if ((seed & 3) == 0) { // boundary initial values and degenerate data
                                static const uint32_t edge[] = { 0, 0xffffffffu, 1, 0x80000000u };
                                init = edge[(seed >> 2) & 3];
                                if (seed & 16)
                                        memset(s->data, (seed & 32) ? 0xff : 0, len);
                        }
                        uint64_t before = hash_bytes(s->data, len);
                        const char *fn = "";
                        int which = sub % 6;
                        int f = 0;
                        switch (which) {
                        case 0:
                                fn = "crc16_t10dif";
                                f = GUARDED(gc, got = crc16_t10dif((uint16_t) init, s->data, len));
                                want = crc16_t10dif_base((uint16_t) init, s->data, len);
                                break;
                        case 1:
                                fn = "crc32_ieee";
                                f = GUARDED(gc, got = crc32_ieee(init, s->data, len));
                                want = crc32_ieee_base(init, s->data, len);
                                break;
                        case 2:
                                fn = "crc32_gzip_refl";
                                f = GUARDED(gc, got = crc32_gzip_refl(init, s->data, len));
                                want = crc32_gzip_refl_base(init, s->data, len);
                                break;
                        case 3:
                                fn = "crc32_iscsi";
                                f = GUARDED(gc, got = (uint32_t) ABI_CALL(crc32_iscsi, s->data, iarg("crc32_iscsi", 1, (int) len), iarg("crc32_iscsi", 2, (int) init), 0, 0, 0, 0));
                                want = crc32_iscsi_base(s->data, (int) len, init);
                                break;
                        case 4:
                                fn = "isal_adler32";
                                f = GUARDED(gc, got = isal_adler32(init, s->data, len));
                                want = adler32_base(init, s->data, len);
                                break;
                        default: {
                                fn = "crc16_t10dif_copy";
                                Slot *d = g_arena.alloc(len, (place >> 1) & 1 ? PLACE_START : PLACE_END, "crc_copy_dst", fill + opn, 1);
                                if (!d)
                                        return false;
                                f = GUARDED(gc, got = crc16_t10dif_copy((uint16_t) init, d->data, s->data, len));
                                if (f)
                                        return fault(fn);
                                want = crc16_t10dif_base((uint16_t) init, s->data, len);
                                if (memcmp(d->data, s->data, len) || !g_arena.canary_ok(d)) {
                                        rr.fail("C16.kernel_disagrees_with_base", strf("crc16_t10dif_copy(len %zu): destination does not equal the source", len));
                                        return false;
                                }
                        }
                        }
                        if (f)
                                return fault(fn);
                        h.rec(fn, { (int64_t) len, place & 1, (int64_t) got });
                        h.sigmix(hash_str(fn) ^ (uint64_t) (len % 257) << 8 ^ (place & 1));
                        if (got != want) {
                                disagree(fn, got, want, len);
                                return false;
                        }
                        if (hash_bytes(s->data, len) != before || !g_arena.canary_ok(s)) {
                                rr.fail("C05.source_modified", strf("%s modified its source buffer", fn));
                                return false;
                        }
                        break;
                }
                case 1: { // CRC64 family
                        Slot *s = buf(len, place, "crc64_buf", r);
                        if (!s)
                                return false;
                        const Crc64Pair &c = crc64s[sub % 8];
                        uint64_t init = r.u64(), got = 0;
                        if ((seed & 3) == 0) {
                                static const uint64_t edge[] = { 0, ~0ull, 1, 1ull << 63 };
                                init = edge[(seed >> 2) & 3];
                                if (seed & 16)
                                        memset(s->data, (seed & 32) ? 0xff : 0, len);
                        }
                        if (GUARDED(gc, got = c.fn(init, s->data, len)))
                                return fault(c.name);
                        uint64_t want = c.base(init, s->data, len);
                        h.rec(c.name, { (int64_t) len, place & 1, (int64_t) got });
                        h.sigmix(hash_str(c.name) ^ (uint64_t) (len % 257) << 8 ^ (place & 1));
                        if (got != want) {
                                disagree(c.name, got, want, len);
                                return false;
                        }
                        break;
                }
                case 2: { // zero detect
                        Slot *s = buf(len, place, "zero_buf", r, 1, true);
                        if (!s)
                                return false;
                        bool plant = sub & 1 && len > 0;
                        size_t at = plant ? (size_t) (r.u64() % len) : 0;
                        if (plant)
                                s->data[at] = (uint8_t) (1 + r.below(255));
                        // structured non-zero content (a quarter of the planted cases): the same value again 64 / 128 bytes further
                        // on, a whole 64-/128-byte line of one value, or a completely non-zero stretch at the very end of the buffer -
                        // shapes a kernel's lane merging or loop-exit arithmetic may mishandle
                        if (plant && (sub & 6) == 6) {
                                uint8_t v = s->data[at];
                                switch ((sub >> 3) & 3) {
                                case 0:
                                        if (at + 64 < len)
                                                s->data[at + 64] = v;
                                        break;
                                case 1: {
                                        size_t a0 = at & ~(size_t) 63, n = (sub & 32) ? 128 : 64;
                                        for (size_t q = a0; q < a0 + n && q < len; q++)
                                                s->data[q] = v;
                                        break;
                                }
                                case 2: {
                                        size_t n = std::min<size_t>(len, 64 * (1 + (sub >> 5)) + (size_t) (r.u64() % 64));
                                        for (size_t q = len - n; q < len; q++)
                                                s->data[q] = (sub & 32) ? 0xff : (uint8_t) (r.u64() | 1);
                                        break;
                                }
                                default:
                                        if (at + 128 < len)
                                                s->data[at + 128] = v;
                                }
                        }
                        int got = 0;
                        if (GUARDED(gc, got = isal_zero_detect(s->data, len)))
                                return fault("isal_zero_detect");
                        h.rec("isal_zero_detect", { (int64_t) len, place & 1, plant, got != 0 });
                        h.sigmix(0x2e20 ^ (uint64_t) (len % 257) << 8 ^ (place & 1) ^ (plant ? 2 : 0));
                        if ((got != 0) != plant) {
                                disagree("isal_zero_detect", got, plant, len);
                                return false;
                        }
                        break;
                }
                case 3:
                case 4: { // RAID xor / pq: gen then check; 32-byte aligned buffers, len multiple of 32 for P+Q
                        bool pq = kind == 4;
                        int vects = (pq ? 4 : 3) + sub % 14;
                        size_t l = pq ? (len % 8192) & ~(size_t) 31 : (len % 8192);
                        std::vector<Slot *> v(vects);
                        Slot *arr = g_arena.alloc(sizeof(void *) * vects, PLACE_END, "raid_ptrs", 0, 8), *arr2 = g_arena.alloc(sizeof(void *) * vects, PLACE_END, "raid_ptrs_base", 0, 8);
                        if (!arr || !arr2)
                                return false;
                        void **a = (void **) arr->data, **a2 = (void **) arr2->data;
                        std::vector<Slot *> v2(vects);
                        int ndst = pq ? 2 : 1;
                        for (int i = 0; i < vects; i++) {
                                v[i] = buf(l, place + i, "raid_vec", r, 32);
                                v2[i] = g_arena.alloc(l, PLACE_END, "raid_vec_base", fill + i, 32);
                                if (!v[i] || !v2[i])
                                        return false;
                                if (((uintptr_t) v[i]->data & 31) || ((uintptr_t) v2[i]->data & 31)) // START placement is page aligned; END aligned by request
                                        return true;
                                memcpy(v2[i]->data, v[i]->data, l);
                                a[i] = v[i]->data;
                                a2[i] = v2[i]->data;
                        }
                        int g1 = 0, g2 = 0, c1 = 0, c2 = 0;
                        const char *fn = pq ? "pq_gen" : "xor_gen";
                        if (GUARDED(gc, g1 = (int) ABI_CALL(pq ? (void *) pq_gen : (void *) xor_gen, iarg(fn, 0, vects), iarg(fn, 1, (int) l), a, 0, 0, 0, 0)))
                                return fault(fn);
                        g2 = pq ? pq_gen_base(vects, (int) l, a2) : xor_gen_base(vects, (int) l, a2);
                        uint64_t ph = 0;
                        for (int i = 0; i < vects; i++) {
                                if (!g_arena.canary_ok(v[i])) {
                                        rr.fail("C05.canary", strf("%s wrote outside vector %d", fn, i));
                                        return false;
                                }
                                if (i < vects - ndst && memcmp(v[i]->data, v2[i]->data, l)) {
                                        rr.fail("C05.source_modified", strf("%s modified source vector %d", fn, i));
                                        return false;
                                }
                                ph = hash_bytes(v[i]->data, l, ph);
                        }
                        for (int i = vects - ndst; i < vects; i++)
                                if (g1 != g2 || memcmp(v[i]->data, v2[i]->data, l)) {
                                        disagree(fn, g1, g2, l);
                                        return false;
                                }
                        // corrupt one byte (sometimes) and check
                        bool corrupt = (sub & 16) && l > 0;
                        if (corrupt) {
                                int vi = (int) r.below(vects);
                                size_t at = (size_t) (r.u64() % l);
                                uint8_t x = (uint8_t) (1 + r.below(255));
                                v[vi]->data[at] ^= x;
                                v2[vi]->data[at] ^= x;
                                // now and then a second (third) damaged byte at a vector-lane stride from the first, with the same or another
                                // difference, in the same or another block: damage that can cancel inside a kernel's syndrome merging
                                if (sub & 32)
                                        for (int extra = 1 + (int) r.below(2); extra > 0; extra--) {
                                                static const size_t strides[] = { 16, 32, 48, 64, 1, 15, 17 };
                                                size_t at2 = at + r.pick(strides) * (1 + r.below(2));
                                                int vj = r.chance(1, 2) ? vi : (int) (vects - 1 - r.below(std::min(vects, 3)));
                                                uint8_t y = r.chance(2, 3) ? x : (uint8_t) (1 + r.below(255));
                                                if (at2 < l) {
                                                        v[vj]->data[at2] ^= y;
                                                        v2[vj]->data[at2] ^= y;
                                                }
                                        }
                        }
                        const char *fc = pq ? "pq_check" : "xor_check";
                        if (GUARDED(gc, c1 = (int) ABI_CALL(pq ? (void *) pq_check : (void *) xor_check, iarg(fc, 0, vects), iarg(fc, 1, (int) l), a, 0, 0, 0, 0)))
                                return fault(fc);
                        c2 = pq ? pq_check_base(vects, (int) l, a2) : xor_check_base(vects, (int) l, a2);
                        h.rec(fn, { vects, (int64_t) l, g1, c1 != 0, (int64_t) ph });
                        h.sigmix(hash_str(fn) ^ (uint64_t) vects << 20 ^ (l % 257) << 8 ^ (corrupt ? 1 : 0));
                        if ((c1 != 0) != (c2 != 0)) {
                                disagree(fc, c1, c2, l);
                                return false;
                        }
                        break;
                }
                case 5:
                case 6: { // ec_encode_data / gf_vect_dot_prod
                        int k = 1 + sub % 20, rows = kind == 5 ? 1 + (sub / 4) % 9 : 1;
                        size_t l = len % 6000;
                        if (kind == 6 && l < 32)
                                l += 32; // documented minimum for gf_vect_dot_prod
                        std::vector<uint8_t> coef((size_t) k * rows);
                        for (auto &c : coef)
                                c = (uint8_t) r.u64();
                        Slot *sc = g_arena.alloc(coef.size(), PLACE_END, "coeffs", 0, 1), *st = g_arena.alloc((size_t) 32 * k * rows, PLACE_END, "gftbls", fill + 3, 1), *stb = g_arena.alloc((size_t) 32 * k * rows, PLACE_END, "gftbls_base", fill + 4, 1);
                        Slot *sp = g_arena.alloc(sizeof(void *) * k, PLACE_END, "src_ptrs", 0, 8), *dp = g_arena.alloc(sizeof(void *) * rows, PLACE_END, "dst_ptrs", 0, 8), *dpb = g_arena.alloc(sizeof(void *) * rows, PLACE_END, "dst_ptrs_base", 0, 8);
                        if (!sc || !st || !stb || !sp || !dp || !dpb)
                                return false;
                        memcpy(sc->data, coef.data(), coef.size());
                        unsigned char **src = (unsigned char **) sp->data, **dst = (unsigned char **) dp->data, **dstb = (unsigned char **) dpb->data;
                        std::vector<Slot *> d(rows), db(rows), sv(k);
                        for (int i = 0; i < k; i++) {
                                sv[i] = buf(l, place + i, "ec_src", r);
                                if (!sv[i])
                                        return false;
                                src[i] = sv[i]->data;
                        }
                        for (int j = 0; j < rows; j++) {
                                d[j] = g_arena.alloc(l, (place + j) & 1 ? PLACE_END : PLACE_START, "ec_dst", fill + 20 + j, 1);
                                db[j] = g_arena.alloc(l, PLACE_END, "ec_dst_base", fill + 40 + j, 1);
                                if (!d[j] || !db[j])
                                        return false;
                                dst[j] = d[j]->data;
                                dstb[j] = db[j]->data;
                        }
                        const char *fn = kind == 5 ? "ec_encode_data" : "gf_vect_dot_prod";
                        if (kind == 5) {
                                if (GUARDED(gc, {
                                            ec_init_tables(k, rows, sc->data, st->data);
                                            ABI_CALL(ec_encode_data, iarg(fn, 0, (int) l), iarg(fn, 1, k), iarg(fn, 2, rows), st->data, src, dst, 0);
                                    }))
                                        return fault(fn);
                        } else {
                                if (GUARDED(gc, {
                                            ec_init_tables_base(k, rows, sc->data, st->data);
                                            ABI_CALL(gf_vect_dot_prod, iarg(fn, 0, (int) l), iarg(fn, 1, k), st->data, src, dst[0], 0, 0);
                                    }))
                                        return fault(fn);
                        }
                        ec_init_tables_base(k, rows, sc->data, stb->data);
                        ec_encode_data_base((int) l, k, rows, stb->data, src, dstb);
                        uint64_t ph = 0;
                        for (int j = 0; j < rows; j++) {
                                if (!g_arena.canary_ok(d[j])) {
                                        rr.fail("C05.canary", strf("%s wrote outside output block %d", fn, j));
                                        return false;
                                }
                                if (memcmp(d[j]->data, db[j]->data, l)) {
                                        disagree(fn, hash_bytes(d[j]->data, l) & 0xffff, hash_bytes(db[j]->data, l) & 0xffff, l);
                                        return false;
                                }
                                ph = hash_bytes(d[j]->data, l, ph);
                        }
                        h.rec(fn, { k, rows, (int64_t) l, (int64_t) ph });
                        h.sigmix(hash_str(fn) ^ (uint64_t) k << 24 ^ (uint64_t) rows << 16 ^ (l % 257));
                        break;
                }
                case 10: { // single-source update family: ec_encode_data_update / gf_vect_mad / gf_vect_mul
                        int k = 1 + sub % 12, rows = 1 + (sub / 12) % 5, vi = (int) (seed % k);
                        size_t l = len % 5000;
                        int which = (int) ((seed >> 8) % 3);
                        if (which == 1 && l < 64)
                                l += 64; // documented minimum for gf_vect_mad
                        if (which == 2)
                                l &= ~(size_t) 31; // gf_vect_mul: len and buffers 32-byte aligned
                        std::vector<uint8_t> coef((size_t) k * rows);
                        for (auto &c : coef)
                                c = (uint8_t) r.u64();
                        Slot *sc = g_arena.alloc(coef.size(), PLACE_END, "coeffs", 0, 1), *st = g_arena.alloc((size_t) 32 * k * rows, PLACE_END, "gftbls", fill + 3, 1), *stb = g_arena.alloc((size_t) 32 * k * rows, PLACE_END, "gftbls_base", fill + 4, 1);
                        Slot *src = buf(l, place, "upd_src", r, 32);
                        Slot *dp = g_arena.alloc(sizeof(void *) * rows, PLACE_END, "dst_ptrs", 0, 8), *dpb = g_arena.alloc(sizeof(void *) * rows, PLACE_END, "dst_ptrs_base", 0, 8);
                        if (!sc || !st || !stb || !src || !dp || !dpb)
                                return false;
                        memcpy(sc->data, coef.data(), coef.size());
                        unsigned char **dst = (unsigned char **) dp->data, **dstb = (unsigned char **) dpb->data;
                        std::vector<Slot *> d(rows), db(rows);
                        for (int j = 0; j < rows; j++) {
                                d[j] = buf(l, place + j + 1, "upd_dst", r, 32);
                                db[j] = g_arena.alloc(l, PLACE_END, "upd_dst_base", 0, 32);
                                if (!d[j] || !db[j])
                                        return false;
                                memcpy(db[j]->data, d[j]->data, l);
                                dst[j] = d[j]->data;
                                dstb[j] = db[j]->data;
                        }
                        const char *fn = which == 0 ? "ec_encode_data_update" : which == 1 ? "gf_vect_mad" : "gf_vect_mul";
                        int mr = 0;
                        if (which == 0) {
                                if (GUARDED(gc, {
                                            ec_init_tables(k, rows, sc->data, st->data);
                                            ABI_CALL(ec_encode_data_update, iarg(fn, 0, (int) l), iarg(fn, 1, k), iarg(fn, 2, rows), iarg(fn, 3, vi), st->data, src->data, dst);
                                    }))
                                        return fault(fn);
                                ec_init_tables_base(k, rows, sc->data, stb->data);
                                ec_encode_data_update_base((int) l, k, rows, vi, stb->data, src->data, dstb);
                        } else if (which == 1) {
                                ec_init_tables_base(k, rows, sc->data, stb->data);
                                if (GUARDED(gc, ABI_CALL(gf_vect_mad, iarg(fn, 0, (int) l), iarg(fn, 1, k), iarg(fn, 2, vi), stb->data, src->data, dst[0], 0)))
                                        return fault(fn);
                                gf_vect_mad_base((int) l, k, vi, stb->data, src->data, dstb[0]);
                                rows = 1;
                        } else {
                                if (((uintptr_t) src->data & 31) || ((uintptr_t) d[0]->data & 31))
                                        return true;
                                gf_vect_mul_init(coef[0], stb->data);
                                if (GUARDED(gc, mr = (int) ABI_CALL(gf_vect_mul, iarg(fn, 0, (int) l), stb->data, src->data, dst[0], 0, 0, 0)))
                                        return fault(fn);
                                gf_vect_mul_base((int) l, stb->data, src->data, dstb[0]);
                                rows = 1;
                        }
                        uint64_t ph = 0;
                        for (int j = 0; j < rows; j++) {
                                if (!g_arena.canary_ok(d[j])) {
                                        rr.fail("C05.canary", strf("%s wrote outside output block %d", fn, j));
                                        return false;
                                }
                                if (memcmp(d[j]->data, db[j]->data, l)) {
                                        disagree(fn, hash_bytes(d[j]->data, l) & 0xffff, hash_bytes(db[j]->data, l) & 0xffff, l);
                                        return false;
                                }
                                ph = hash_bytes(d[j]->data, l, ph);
                        }
                        h.rec(fn, { k, rows, vi, (int64_t) l, mr, (int64_t) ph });
                        h.sigmix(hash_str(fn) ^ (uint64_t) k << 24 ^ (uint64_t) rows << 16 ^ (l % 257));
                        break;
                }
                case 7: { // histogram collector on an exact-size buffer
                        size_t l = len % 40000;
                        Slot *s = buf(l, place, "hist_in", r), *hs = g_arena.alloc(sizeof(struct isal_huff_histogram), PLACE_END, "histogram", 0, 8);
                        if (!s || !hs)
                                return false;
                        if (sub & 1)
                                for (size_t i = 0; i < l; i++)
                                        s->data[i] = (uint8_t) ('a' + s->data[i] % 3);
                        // the counters accumulate (the caller zeroes them); hash_table is documented as temporary space: its prior contents
                        // are garbage here and must not influence the counts
                        memset(hs->data, 0, hs->len);
                        {
                                struct isal_huff_histogram *hg = (struct isal_huff_histogram *) hs->data;
                                fill_garbage((uint8_t *) hg->hash_table, sizeof hg->hash_table, fill + 77 + opn);
                        }
                        if (GUARDED(gc, isal_update_histogram(s->data, (int) l, (struct isal_huff_histogram *) hs->data)))
                                return fault("isal_update_histogram");
                        h.rec("isal_update_histogram", { (int64_t) l, g_kern_portable ? 0 : (int64_t) hash_bytes(hs->data, offsetof(struct isal_huff_histogram, hash_table)) });
                        h.sigmix(0x7157 ^ (l % 257) << 8);
                        if (!g_arena.canary_ok(hs) || !g_arena.canary_ok(s)) {
                                rr.fail("C05.canary", "isal_update_histogram wrote outside the histogram");
                                return false;
                        }
                        break;
                }
                case 8: { // matrix helpers
                        int k = 1 + sub % 12, m = k + 1 + (sub / 12) % 5;
                        Slot *a = g_arena.alloc((size_t) m * k, PLACE_END, "matrix", fill + 5, 1), *inv = g_arena.alloc((size_t) k * k, PLACE_END, "inverse", fill + 6, 1), *sq = g_arena.alloc((size_t) k * k, PLACE_END, "square", fill + 7, 1);
                        if (!a || !inv || !sq)
                                return false;
                        int ir = 0;
                        bool singular = false;
                        if (GUARDED(gc, {
                                    if (sub & 32)
                                            gf_gen_cauchy1_matrix(a->data, m, k);
                                    else
                                            gf_gen_rs_matrix(a->data, m, k);
                                    memcpy(sq->data, a->data + (size_t) (m - k) * k, (size_t) k * k);
                                    // a third of the time a SINGULAR matrix (an undecodable erasure pattern): some row made equal to, or
                                    // the sum of, other rows - the rank defect can then show up at any pivot, the last one included
                                    singular = (seed % 3) == 0 && k >= 2;
                                    if (singular) {
                                            int victim = (seed & 8) ? k - 1 : (int) ((seed >> 4) % k), other = (victim + 1 + (int) ((seed >> 8) % (k - 1))) % k;
                                            for (int c = 0; c < k; c++)
                                                    sq->data[(size_t) victim * k + c] = (seed & 16) && k >= 3 ? (uint8_t) (sq->data[(size_t) other * k + c] ^ sq->data[(size_t) ((other + 1) % k == victim ? (other + 2) % k : (other + 1) % k) * k + c]) : sq->data[(size_t) other * k + c];
                                    }
                                    ir = gf_invert_matrix(sq->data, inv->data, k);
                            }))
                                return fault("gf_gen_*_matrix / gf_invert_matrix");
                        if (singular && ir == 0) {
                                rr.fail("C16.kernel_disagrees_with_base", strf("gf_invert_matrix reports success for a singular %dx%d matrix", k, k));
                                return false;
                        }
                        h.rec("gf_matrix", { k, m, ir, (int64_t) hash_bytes(a->data, (size_t) m * k), (int64_t) (ir == 0 ? hash_bytes(inv->data, (size_t) k * k) : 0) });
                        h.sigmix(0x3a7 ^ (uint64_t) k << 8 ^ (uint64_t) m);
                        if (!g_arena.canary_ok(a) || !g_arena.canary_ok(inv) || !g_arena.canary_ok(sq)) {
                                rr.fail("C05.canary", "matrix helper wrote outside its matrix");
                                return false;
                        }
                        break;
                }
                case 11: { // streaming deflate primed with a dictionary + inflate primed with the same: the dictionary hash kernels
                           // (isal_deflate_hash_lvl0..3) and the level-3 map builder are reached only this way
                        uint64_t aux = seed >> 3;
                        size_t l = len % 20000, dl = 1 + (size_t) (aux >> 7) % 6000;
                        int level = sub % 4;
                        static const uint32_t lbsz[4] = { 0, ISAL_DEF_LVL1_DEFAULT, ISAL_DEF_LVL2_DEFAULT, ISAL_DEF_LVL3_DEFAULT };
                        Slot *s = buf(l, place, "dict_rt_in", r), *dc = buf(dl, place >> 1, "dict", r);
                        Slot *zs = g_arena.alloc(sizeof(struct isal_zstream), PLACE_END, "zstream", fill + 8, 16), *o = g_arena.alloc(l + l / 8 + 300, PLACE_END, "rt_comp", fill + 9, 1);
                        Slot *is = g_arena.alloc(sizeof(struct inflate_state), PLACE_END, "inflate_state", fill + 10, 8), *d = g_arena.alloc(l, PLACE_END, "rt_out", fill + 11, 1);
                        Slot *lb = level ? g_arena.alloc(lbsz[level], PLACE_END, "level_buf", fill + 12, 16) : nullptr;
                        if (!s || !dc || !zs || !o || !is || !d || (level && !lb))
                                return false;
                        for (size_t i = 0; i < dl; i++)
                                dc->data[i] = (uint8_t) ('a' + dc->data[i] % 5);
                        for (size_t i = 0; i < l; i++) // the data shares long runs with the dictionary
                                s->data[i] = (sub & 8) && (i / 64) % 3 ? s->data[i] : dc->data[(i + (aux & 63)) % dl];
                        struct isal_zstream *z = (struct isal_zstream *) zs->data;
                        struct inflate_state *st = (struct inflate_state *) is->data;
                        int cr = 0, dr = 0, sd = 0, isd = 0, calls = 0;
                        if (GUARDED(gc, {
                                    isal_deflate_init(z);
                                    z->level = level;
                                    z->level_buf = lb ? lb->data : nullptr;
                                    z->level_buf_size = lb ? (uint32_t) lb->len : 0;
                                    z->gzip_flag = (sub & 4) ? IGZIP_GZIP : IGZIP_DEFLATE;
                                    z->flush = NO_FLUSH;
                                    z->end_of_stream = 1;
                                    z->next_in = s->data;
                                    z->avail_in = (uint32_t) l;
                                    z->next_out = o->data;
                                    z->avail_out = (uint32_t) o->len;
                                    sd = isal_deflate_set_dict(z, dc->data, (uint32_t) dl);
                                    do
                                            cr = isal_deflate(z);
                                    while (cr == COMP_OK && z->internal_state.state != ZSTATE_END && ++calls < 8);
                                    isal_inflate_init(st);
                                    st->crc_flag = (sub & 4) ? ISAL_GZIP : ISAL_DEFLATE;
                                    isd = isal_inflate_set_dict(st, dc->data, (uint32_t) dl);
                                    st->next_in = o->data;
                                    st->avail_in = z->total_out;
                                    st->next_out = d->data;
                                    st->avail_out = (uint32_t) l;
                                    dr = cr == 0 ? isal_inflate(st) : -99;
                            }))
                                return fault("dictionary deflate/inflate round trip");
                        bool fin = z->internal_state.state == ZSTATE_END && st->block_state == ISAL_BLOCK_FINISH;
                        if (g_kern_portable)
                                h.rec("dict_roundtrip", { (int64_t) l, (int64_t) dl, level, sd, isd, cr, dr, fin, (int64_t) hash_bytes(d->data, l) });
                        else
                                h.rec("dict_roundtrip", { (int64_t) l, (int64_t) dl, level, sd, isd, cr, dr, fin, z->total_out, (int64_t) hash_bytes(o->data, cr == 0 ? z->total_out : 0) });
                        h.sigmix(0xd1c7 ^ (uint64_t) level << 8 ^ (l % 257) << 16);
                        if (sd != 0 || isd != 0 || cr != 0 || dr != 0 || !fin || memcmp(d->data, s->data, l)) {
                                rr.fail("C16.roundtrip", strf("deflate with a %zu-byte dictionary (set_dict %d, ret %d, level %d) + inflate with the same dictionary (set_dict %d, ret %d, finished %d) of %zu bytes does not round-trip", dl, sd, cr, level, isd, dr, (int) fin, l));
                                return false;
                        }
                        break;
                }
                default: { // one-shot deflate + inflate round trip through the dispatcher (kernels selected per CPU)
                        size_t l = (sub & 16) ? 20000 + (len ^ (size_t) (seed >> 7)) % 50000 : len % 30000; // far-copy data needs room for copies from 4-32 KiB back (and the generator's lengths are mostly small: spread them)
                        Slot *s = buf(l, place, "rt_in", r), *zs = g_arena.alloc(sizeof(struct isal_zstream), PLACE_END, "zstream", fill + 8, 16), *o = g_arena.alloc(l + l / 8 + 300, PLACE_END, "rt_comp", fill + 9, 1);
                        Slot *is = g_arena.alloc(sizeof(struct inflate_state), PLACE_END, "inflate_state", fill + 10, 8), *d = g_arena.alloc(l, PLACE_END, "rt_out", fill + 11, 1);
                        int level = sub % 4;
                        Slot *lb = level >= 2 ? g_arena.alloc(level == 2 ? ISAL_DEF_LVL2_DEFAULT : ISAL_DEF_LVL3_DEFAULT, PLACE_END, "level_buf", fill + 12, 16) : nullptr;
                        if (!s || !zs || !o || !is || !d || (level >= 2 && !lb))
                                return false;
                        if (sub & 16)
                                far_copies(s->data, l, seed);
                        else if (sub & 4)
                                for (size_t i = 0; i < l; i++)
                                        s->data[i] = (uint8_t) ('a' + s->data[i] % 4);
                        struct isal_zstream *z = (struct isal_zstream *) zs->data;
                        struct inflate_state *st = (struct inflate_state *) is->data;
                        int cr = 0, dr = 0;
                        if (GUARDED(gc, {
                                    isal_deflate_stateless_init(z);
                                    z->level = level;
                                    z->level_buf = lb ? lb->data : nullptr;
                                    z->level_buf_size = lb ? (uint32_t) lb->len : 0;
                                    z->gzip_flag = (sub >> 3) % 5;
                                    z->next_in = s->data;
                                    z->avail_in = (uint32_t) l;
                                    z->next_out = o->data;
                                    z->avail_out = (uint32_t) o->len;
                                    cr = isal_deflate_stateless(z);
                                    isal_inflate_init(st);
                                    static const int modes[5] = { ISAL_DEFLATE, ISAL_GZIP, ISAL_GZIP_NO_HDR_VER, ISAL_ZLIB, ISAL_ZLIB_NO_HDR_VER };
                                    st->crc_flag = modes[(sub >> 3) % 5];
                                    st->next_in = o->data;
                                    st->avail_in = z->total_out;
                                    st->next_out = d->data;
                                    st->avail_out = (uint32_t) l;
                                    dr = cr == 0 ? isal_inflate_stateless(st) : -99;
                            }))
                                return fault("one-shot deflate/inflate round trip");
                        if (g_kern_portable) // compressed bytes may legitimately differ between implementations; decoded data and return codes may not
                                h.rec("roundtrip", { (int64_t) l, level, cr, dr, (int64_t) hash_bytes(d->data, l) });
                        else
                                h.rec("roundtrip", { (int64_t) l, level, cr, dr, z->total_out, (int64_t) hash_bytes(o->data, cr == 0 ? z->total_out : 0) });
                        h.sigmix(0x9090 ^ (uint64_t) level << 8 ^ (l % 257) << 16);
                        if (cr != 0 || dr != 0 || memcmp(d->data, s->data, l)) {
                                rr.fail("C16.roundtrip", strf("one-shot deflate (ret %d, level %d) + inflate (ret %d) of %zu bytes does not round-trip", cr, level, dr, l));
                                return false;
                        }
                }
                }
                return !rr.violated();
        }

        void run()
        {
                const Json &m = plan.at("mem");
                fill = (uint64_t) m.geti("fill");
                regs = (uint64_t) m.geti("regs");
                for (auto &o : plan.at("ops").a) {
                        if (!op(o))
                                return;
                        if (g_kern_yield && t_kern_yield_arg)
                                g_kern_yield(t_kern_yield_arg);
                }
        }
};
} // namespace

void exec_kern(const Json &plan, RunResult &rr, Hist &h)
{
        Kern k(plan, rr, h);
        k.run();
}

Json gen_kern_ops(Rng &r, int nops)
{
        static const uint32_t lens[] = { 0, 1, 2, 3, 7, 8, 9, 15, 16, 17, 31, 32, 33, 47, 48, 63, 64, 65, 127, 128, 129, 255, 256, 257, 511, 512, 513, 1023, 1024, 1025, 4095, 4096, 4097, 8192, 65535, 65536 };
        Json ops = Json::arr();
        for (int i = 0; i < nops; i++) {
                Json o = Json::arr();
                uint32_t len = r.chance(1, 2) ? r.pick(lens) : (uint32_t) r.logsize(69999);
                o.push((int) r.below(12)).push(len).push((int) r.below(4)).push(r.u64() >> 20).push((int) r.below(64));
                ops.push(o);
        }
        return ops;
}

static Json gen_kern(Rng &r0, const std::string &focus, int tier)
{
        Rng r(r0.u64(), "kern.plan");
        Json p = Json::obj();
        p.set("prof", "kern").set("focus", focus);
        p.set("ops", gen_kern_ops(r, 1 + (int) r.below(6)));
        Json mem = Json::obj();
        mem.set("fill", r.u64() >> 24).set("regs", r.chance(1, 3) ? 0 : r.u64() >> 24).set("skip", r.chance(1, 2) ? 0 : (int) r.below(4096));
        p.set("mem", mem);
        maybe_swarm_cpu(r, p, 1, focus == "C05" ? 3 : 10); // C05 quantifies over every variant of every kernel: a third of its kernel sessions run under a simulated CPU
        // caller-ABI seam: now and then an operation's int arguments arrive with garbage in the upper half of their registers.  While
        // finding F15 is open the entry points it lists are passed clean (the list was established for the host's own dispatch, so runs
        // under a simulated CPU carry no garbage either).
        if (!p.find("cpu") || std::find(g_avoid.begin(), g_avoid.end(), "F15") == g_avoid.end()) {
                bool all = std::find(g_avoid.begin(), g_avoid.end(), "F15") == g_avoid.end();
                Json &ops = *const_cast<Json *>(p.find("ops"));
                for (auto &o : ops.a)
                        if (r.chance(1, 6)) {
                                static const uint32_t dirts[] = { 1, 0x80000000u, 0xffffffffu, 0x00010000u };
                                Json u = Json::arr();
                                u.push(r.chance(1, 2) ? r.pick(dirts) : (uint32_t) (r.u64() | 1)).push((int) (1 + r.below(15))).push((int) all);
                                o.push(u);
                        }
        }
        (void) tier;
        return p;
}

extern const Profile prof_kern;
const Profile prof_kern = { "kern", gen_kern, exec_kern };
