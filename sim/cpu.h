// cpu.h — CPU seam interface shared by the cpu and sched profiles
#pragma once
#include "sim.h"

struct SimCpu {
        uint32_t l1_eax = 0x000806f8, l1_ecx = 0, l7_ebx = 0, l7_ecx = 0, xcr0 = 1;
        uint32_t have() const;
};
struct CpuWin {
        SimCpu cpu;
        uint32_t have = 0;
        bool active = false;   // CPUID faulting enabled, answers come from cpu
        bool stepping = false; // trap flag set
        uint32_t steps = 0, max_steps = 400, total_steps = 0, cpuids = 0, xgetbvs = 0, other = 0, unclass = 0, windows = 0;
        uint32_t lib_steps = 0;
        int viol = 0; // 1 class not available, 2 xgetbv without osxsave
        uint32_t viol_need = 0;
        uintptr_t viol_ip = 0;
        const LibSym *last_resolver = nullptr;
        // scheduler hooks: called at every trapped step inside the library / when a window opens or closes
        void (*step_hook)(void *, uintptr_t ip, uint32_t step) = nullptr;
        void (*window_hook)(void *, bool opening) = nullptr;
        void *hook_arg = nullptr;
};
void cpu_window_open(CpuWin *w);
void cpu_window_close(CpuWin *w);
void cpu_cold_start();
void cpu_lib_readonly(bool ro);
void cpu_lib_monitor(bool on); // write-protect the library's own data for the whole process
extern uint64_t g_slot_publications;
size_t cpu_nslots();
const std::string &cpu_slot_name(size_t i);
std::string cpu_slot_target(size_t i);
uint64_t cpu_slot_value(size_t i);
uint64_t cpu_slot_init(size_t i);
uintptr_t cpu_slot_addr(size_t i);
SimCpu cpu_from_plan(const Json &c);
Json gen_cpu_config(Rng &r);
bool cpu_load_classes();
std::string need_str(uint32_t need);
extern __thread int t_watchdog_pause;
