// mem.cc — guard-paged arena, fault classifier, library image info
#include "mem.h"
#include <sys/mman.h>
#include <ucontext.h>
#include <unistd.h>
#include <link.h>
#include <elf.h>
#include <fcntl.h>
#include <sys/stat.h>
#include <stdarg.h>
#include <sys/time.h>

Counters g_cnt;
int g_trace = 0;
Arena g_arena;
__thread GuardCtx *t_guard = nullptr;
segv_hook_t g_segv_hook = nullptr;
void (*g_crash_hook)(const char *sym, void *addr) = nullptr;
LibInfo g_lib;
volatile uint64_t g_call_seq = 0;
volatile int g_watchdog_limit = 3;
__thread int t_watchdog_pause = 0; // >0 while the thread is parked by the scheduler seam

std::string strf(const char *fmt, ...)
{
        char b[1024];
        va_list ap;
        va_start(ap, fmt);
        vsnprintf(b, sizeof b, fmt, ap);
        va_end(ap);
        return b;
}

static const size_t PG = 4096;
static const size_t RUN_BUDGET = 192u << 20; // per run, fixed so that exhaustion is a deterministic function of the plan

void fill_garbage(uint8_t *p, size_t n, uint64_t seed)
{
        uint64_t x = seed * 0x9e3779b97f4a7c15ULL + 1;
        int mode = seed % 5; // 0: random, 1: 0xFF, 2: 0x00, 3: 0xA5, 4: random
        if (mode == 1 || mode == 2 || mode == 3) {
                memset(p, mode == 1 ? 0xff : mode == 2 ? 0 : 0xa5, n);
                return;
        }
        size_t i = 0;
        for (; i + 8 <= n; i += 8) {
                uint64_t v = splitmix64(x);
                memcpy(p + i, &v, 8);
        }
        uint64_t v = splitmix64(x);
        memcpy(p + i, &v, n - i);
}

void Arena::init(size_t bytes)
{
        size = bytes;
        // fixed base: buffer addresses are then a function of the plan alone (address-dependent behaviour of the
        // code under test replays exactly instead of showing up as unexplained nondeterminism)
        void *want = (void *) 0x3f0000000000ULL;
        base = (uint8_t *) mmap(want, size, PROT_NONE, MAP_PRIVATE | MAP_ANONYMOUS | MAP_NORESERVE | MAP_FIXED_NOREPLACE, -1, 0);
        if (base == MAP_FAILED || base != want) {
                perror("arena mmap at fixed base");
                exit(2);
        }
        pos = 0;
}

void Arena::run_begin(size_t skip_pages, size_t sub)
{
        t_stack_word = 0;
        giant_source_reset();
        run_end();
        sub_off = sub % 64; // 0 in every ordinary run; the address twin shifts all buffers by a few bytes inside their pages
        pos = (skip_pages % 4096) * PG; // every run starts from the arena base plus a plan-chosen displacement
        run_start = pos;
}

void Arena::run_end()
{
        for (auto &s : slots)
                if (s.state == 1) {
                        mprotect(s.map, s.pages * PG, PROT_NONE);
                        s.state = 2;
                }
        slots.clear();
}

Slot *Arena::alloc(size_t len, int placement, const char *label, uint64_t fill_seed, unsigned align)
{
        size_t pages = (len + sub_off + 63 + PG - 1) / PG;
        if (sub_off == 0)
                pages = (len + PG - 1) / PG;
        if (pages == 0)
                pages = 1;
        if (pos - run_start + (pages + 3) * PG > RUN_BUDGET) {
                budget_hits++;
                return nullptr;
        }
        if (const char *pl = getenv("SIM_PAD_LABEL"))
                if (!strcmp(pl, label))
                        pos += (size_t) atol(getenv("SIM_PAD_PAGES")) * PG;
        Slot s;
        s.id = (int) slots.size();
        s.map = base + pos + PG;
        s.pages = pages;
        s.len = len;
        s.label = label;
        s.placement = placement;
        s.canary = (uint8_t) (0xC0 | (fill_seed & 0x3f));
        pos += (pages + 1) * PG;
        if (mprotect(s.map, pages * PG, PROT_READ | PROT_WRITE)) {
                perror("mprotect rw");
                exit(2);
        }
        if (placement == PLACE_END) {
                uintptr_t d = (uintptr_t) (s.map + pages * PG - len - sub_off);
                if (align > 1)
                        d &= ~(uintptr_t) (align - 1);
                s.data = (uint8_t *) d;
        } else {
                size_t so = sub_off;
                if (align > 1)
                        so = (so + align - 1) & ~(size_t) (align - 1);
                s.data = s.map + so;
        }
        memset(s.map, s.canary, pages * PG);
        fill_garbage(s.data, len, fill_seed);
        s.state = 1;
        slots.push_back(s);
        return &slots.back();
}

void Arena::release(Slot *s)
{
        if (!s || s->state != 1)
                return;
        mprotect(s->map, s->pages * PG, PROT_NONE);
        s->state = 2;
}

bool Arena::canary_ok(const Slot *s) const
{
        if (!s || s->state != 1)
                return true;
        const uint8_t *e = s->map + s->pages * PG;
        for (const uint8_t *p = s->map; p < s->data; p++)
                if (*p != s->canary)
                        return false;
        for (const uint8_t *p = s->data + s->len; p < e; p++)
                if (*p != s->canary)
                        return false;
        return true;
}

bool Arena::classify(void *addr, FaultInfo &fi) const
{
        uint8_t *a = (uint8_t *) addr;
        if (a < base || a >= base + size)
                return false;
        fi.cls = FC_STRAY;
        for (size_t k = 0; k < slots.size(); k++) {
                const Slot &s = slots[k];
                uint8_t *end = s.map + s.pages * PG;
                if (a >= s.map && a < end) {
                        fi.cls = s.state == 2 ? FC_RELEASED : FC_STRAY;
                        fi.slot_id = s.id;
                        strncpy(fi.label, s.label, sizeof fi.label - 1);
                        fi.offset = a - s.data;
                        return true;
                }
                if (a >= end && a < end + PG) { // guard after this slot (= guard before the next)
                        const Slot *n = k + 1 < slots.size() ? &slots[k + 1] : nullptr;
                        // attribute to the live neighbour; prefer the slot whose data abuts the guard
                        bool this_live = s.state == 1, next_live = n && n->state == 1;
                        if (this_live || !next_live) {
                                fi.cls = FC_GUARD_AFTER;
                                fi.slot_id = s.id;
                                strncpy(fi.label, s.label, sizeof fi.label - 1);
                                fi.offset = a - s.data;
                        } else {
                                fi.cls = FC_GUARD_BEFORE;
                                fi.slot_id = n->id;
                                strncpy(fi.label, n->label, sizeof fi.label - 1);
                                fi.offset = a - n->data;
                        }
                        return true;
                }
                if (k == 0 && a >= s.map - PG && a < s.map) {
                        fi.cls = FC_GUARD_BEFORE;
                        fi.slot_id = s.id;
                        strncpy(fi.label, s.label, sizeof fi.label - 1);
                        fi.offset = a - s.data;
                        return true;
                }
        }
        return true; // inside the arena but not in this run's slots: stale from an earlier run
}

extern __thread int t_watchdog_pause;
const char *fault_class_name(int c)
{
        static const char *n[] = { "none", "guard_after", "guard_before", "released", "slack", "libdata", "stray", "abort", "ud", "hang" };
        return c >= 0 && c <= FC_HANG ? n[c] : "?";
}

// ---------------------------------------------------------------- signal handling
static void fill_sym(FaultInfo &fi, void *uc_)
{
        ucontext_t *uc = (ucontext_t *) uc_;
        uintptr_t ip = uc->uc_mcontext.gregs[REG_RIP];
        fi.is_write = (uc->uc_mcontext.gregs[REG_ERR] & 2) ? 1 : 0;
        const LibSym *s = g_lib.find(ip);
        if (s)
                snprintf(fi.sym, sizeof fi.sym, "%s+0x%lx", s->name.c_str(), (unsigned long) (ip - s->addr));
        else
                snprintf(fi.sym, sizeof fi.sym, "outside-lib");
}

// ---- diagnostic (SIM_REACH=<file>): which labelled code blocks of the library are ever entered.  Every symbol in the
// executable segment (NASM keeps local labels) gets an INT3; the first arrival restores the byte and records the label.
static std::vector<uint8_t> g_reach_orig;  // per symbol: original byte (valid while armed)
static std::vector<uint8_t> g_reach_state; // 0 not patched, 1 armed, 2 reached
static bool g_reach_on = false;
static bool reach_trap(void *uc_)
{
        ucontext_t *uc = (ucontext_t *) uc_;
        uintptr_t ip = uc->uc_mcontext.gregs[REG_RIP] - 1;
        if (ip < g_lib.text_lo || ip >= g_lib.text_hi)
                return false;
        size_t lo = 0, hi = g_lib.syms.size();
        while (hi - lo > 1) {
                size_t mid = (lo + hi) / 2;
                if (g_lib.syms[mid].addr <= ip)
                        lo = mid;
                else
                        hi = mid;
        }
        // several symbols may share an address: restore through all of them
        bool hit = false;
        for (size_t k = lo + 1; k-- > 0 && g_lib.syms[k].addr == ip;)
                if (g_reach_state[k] == 1) {
                        *(volatile uint8_t *) ip = g_reach_orig[k];
                        g_reach_state[k] = 2;
                        hit = true;
                }
        if (!hit)
                return false;
        uc->uc_mcontext.gregs[REG_RIP] = ip;
        return true;
}
void reach_arm()
{
        if (!getenv("SIM_REACH"))
                return;
        uintptr_t lo = g_lib.text_lo & ~4095ul, hi = (g_lib.text_hi + 4095) & ~4095ul;
        if (mprotect((void *) lo, hi - lo, PROT_READ | PROT_WRITE | PROT_EXEC)) {
                perror("SIM_REACH mprotect");
                return;
        }
        g_reach_orig.assign(g_lib.syms.size(), 0);
        g_reach_state.assign(g_lib.syms.size(), 0);
        for (size_t k = 0; k < g_lib.syms.size(); k++) {
                const LibSym &sy = g_lib.syms[k];
                if (sy.addr < g_lib.text_lo || sy.addr >= g_lib.text_hi || sy.type == 'O')
                        continue;
                if (sy.name.find("@plt") != std::string::npos || sy.name == "_init" || sy.name == "_fini")
                        continue;
                if (k > 0 && g_lib.syms[k - 1].addr == sy.addr && g_reach_state[k - 1] == 1) {
                        g_reach_orig[k] = g_reach_orig[k - 1];
                        g_reach_state[k] = 1;
                        continue;
                }
                g_reach_orig[k] = *(volatile uint8_t *) sy.addr;
                g_reach_state[k] = 1;
                *(volatile uint8_t *) sy.addr = 0xCC;
        }
        struct sigaction sa;
        sigaction(SIGSEGV, nullptr, &sa);
        sigaction(SIGTRAP, &sa, nullptr);
        g_reach_on = true;
}
void reach_dump()
{
        if (!g_reach_on)
                return;
        for (size_t k = 0; k < g_lib.syms.size(); k++) // disarm: the library's own exit code runs after our tables are gone
                if (g_reach_state[k] == 1)
                        *(volatile uint8_t *) g_lib.syms[k].addr = g_reach_orig[k];
        g_reach_on = false;
        FILE *f = fopen(getenv("SIM_REACH"), "a");
        if (!f)
                return;
        for (size_t k = 0; k < g_lib.syms.size(); k++)
                if (g_reach_state[k])
                        fprintf(f, "%d %s\n", g_reach_state[k] == 2, g_lib.syms[k].name.c_str());
        fclose(f);
}

static void on_fault(int sig, siginfo_t *si, void *uc)
{
        if (sig == SIGTRAP && g_reach_on && reach_trap(uc))
                return;
        if ((sig == SIGSEGV || sig == SIGBUS || sig == SIGTRAP || sig == SIGILL) && g_segv_hook && g_segv_hook(sig, si, uc))
                return;
        GuardCtx *g = t_guard;
        if (g && g->armed) {
                FaultInfo &fi = g->fi;
                fi = FaultInfo();
                if (sig == SIGABRT) {
                        fi.cls = FC_ABORT;
                } else if (sig == SIGILL) {
                        fi.cls = FC_UD;
                        fill_sym(fi, uc);
                } else {
                        if (!g_arena.classify(si->si_addr, fi)) {
                                uintptr_t a = (uintptr_t) si->si_addr;
                                fi.cls = (a >= g_lib.rw_lo && a < g_lib.rw_hi) ? FC_LIBDATA : FC_STRAY;
                                // the offset goes into the run's history hash: it must not depend on where the loader put things
                                uintptr_t ab = (uintptr_t) g_arena.base;
                                if (a >= g_lib.base && a < g_lib.rw_hi)
                                        fi.offset = (long) (a - g_lib.base);
                                else if (a + (1ul << 32) >= ab && a < ab + g_arena.size + (1ul << 32))
                                        fi.offset = (long) a - (long) ab; // just outside the (fixed-base) arena, e.g. below its first slot
                                else
                                        fi.offset = 0;
                        }
                        fill_sym(fi, uc);
                }
                g->armed = 0;
                siglongjmp(g->jb, 1);
        }
        // not armed.  If the faulting instruction is library code, the library crashed in a call the harness does not guard
        // (init / reset / set_hufftables ...): that is a verdict on the library, not an infrastructure problem.
        if (g_crash_hook && sig != SIGABRT) {
                ucontext_t *u = (ucontext_t *) uc;
                uintptr_t ip = u->uc_mcontext.gregs[REG_RIP];
                if (ip >= g_lib.text_lo && ip < g_lib.text_hi) {
                        FaultInfo fi;
                        fi.cls = FC_STRAY;
                        fill_sym(fi, uc);
                        g_crash_hook(fi.sym, si ? si->si_addr : nullptr);
                }
        }
        char b[160];
        int n = snprintf(b, sizeof b, "INFRA stray signal %d addr=%p rip=%p (lib base %p) outside guarded region\n", sig, si ? si->si_addr : 0, (void *) ((ucontext_t *) uc)->uc_mcontext.gregs[REG_RIP], (void *) g_lib.base);
        if (write(2, b, n)) {
        }
        _exit(70);
}

// watchdog: a recurring virtual-time tick; a guarded library call that is still the same call after three ticks
// (>= 4 s of user CPU time inside one call that normally takes microseconds) is declared hung and abandoned.
static void on_tick(int, siginfo_t *, void *uc)
{
        static uint64_t last_seq = 0;
        static int same = 0;
        GuardCtx *g = t_guard;
        if (!g || !g->armed || t_watchdog_pause) {
                same = 0;
                return;
        }
        if (g_call_seq == last_seq)
                same++;
        else {
                last_seq = g_call_seq;
                same = 0;
        }
        if (same >= g_watchdog_limit) {
                same = 0;
                g->fi = FaultInfo();
                g->fi.cls = FC_HANG;
                fill_sym(g->fi, uc);
                // where the tick happened to land inside the loop is not part of the verdict (it goes into the history hash)
                g->fi.is_write = 0;
                if (char *plus = strrchr(g->fi.sym, '+'))
                        *plus = 0;
                g->armed = 0;
                siglongjmp(g->jb, 1);
        }
}

void mem_install_handlers()
{
        static uint8_t altstack[1 << 16];
        stack_t ss;
        ss.ss_sp = altstack;
        ss.ss_size = sizeof altstack;
        ss.ss_flags = 0;
        sigaltstack(&ss, 0);
        struct sigaction sa;
        memset(&sa, 0, sizeof sa);
        sa.sa_sigaction = on_fault;
        sa.sa_flags = SA_SIGINFO | SA_NODEFER | SA_ONSTACK;
        sigaction(SIGSEGV, &sa, 0);
        sigaction(SIGBUS, &sa, 0);
        sigaction(SIGABRT, &sa, 0);
        sigaction(SIGILL, &sa, 0);
        sa.sa_sigaction = on_tick;
        sigaction(SIGVTALRM, &sa, 0);
        struct itimerval it;
        it.it_interval.tv_sec = 1;
        it.it_interval.tv_usec = 500000;
        it.it_value = it.it_interval;
        setitimer(ITIMER_VIRTUAL, &it, 0);
}

// ---------------------------------------------------------------- library image
const LibSym *LibInfo::find(uintptr_t a) const
{
        if (a < text_lo || a >= rw_hi || syms.empty())
                return nullptr;
        size_t lo = 0, hi = syms.size();
        while (hi - lo > 1) {
                size_t mid = (lo + hi) / 2;
                if (syms[mid].addr <= a)
                        lo = mid;
                else
                        hi = mid;
        }
        return syms[lo].addr <= a ? &syms[lo] : nullptr;
}
const LibSym *LibInfo::byname(const char *n) const
{
        for (auto &s : syms)
                if (s.name == n)
                        return &s;
        return nullptr;
}

static int phdr_cb(struct dl_phdr_info *info, size_t, void *)
{
        if (!info->dlpi_name || !strstr(info->dlpi_name, "libisal"))
                return 0;
        g_lib.path = info->dlpi_name;
        g_lib.base = info->dlpi_addr;
        for (int i = 0; i < info->dlpi_phnum; i++) {
                const ElfW(Phdr) &ph = info->dlpi_phdr[i];
                if (ph.p_type != PT_LOAD)
                        continue;
                uintptr_t lo = info->dlpi_addr + ph.p_vaddr, hi = lo + ph.p_memsz;
                if (ph.p_flags & PF_X) {
                        g_lib.text_lo = lo;
                        g_lib.text_hi = hi;
                }
                if (ph.p_flags & PF_W) {
                        g_lib.rw_lo = lo;
                        g_lib.rw_hi = hi;
                }
        }
        return 1;
}

bool libinfo_init()
{
        dl_iterate_phdr(phdr_cb, 0);
        if (!g_lib.base)
                return false;
        int fd = open(g_lib.path.c_str(), O_RDONLY);
        if (fd < 0)
                return false;
        struct stat st;
        fstat(fd, &st);
        uint8_t *m = (uint8_t *) mmap(0, st.st_size, PROT_READ, MAP_PRIVATE, fd, 0);
        close(fd);
        if (m == MAP_FAILED)
                return false;
        Elf64_Ehdr *eh = (Elf64_Ehdr *) m;
        Elf64_Shdr *sh = (Elf64_Shdr *) (m + eh->e_shoff);
        for (int i = 0; i < eh->e_shnum; i++) {
                if (sh[i].sh_type != SHT_SYMTAB)
                        continue;
                Elf64_Sym *sy = (Elf64_Sym *) (m + sh[i].sh_offset);
                size_t n = sh[i].sh_size / sizeof(Elf64_Sym);
                const char *str = (const char *) (m + sh[sh[i].sh_link].sh_offset);
                for (size_t k = 0; k < n; k++) {
                        int ty = ELF64_ST_TYPE(sy[k].st_info);
                        if (sy[k].st_value == 0 || sy[k].st_shndx == SHN_UNDEF || sy[k].st_shndx >= SHN_LORESERVE)
                                continue;
                        if (ty != STT_FUNC && ty != STT_OBJECT && ty != STT_NOTYPE)
                                continue;
                        const char *nm = str + sy[k].st_name;
                        if (!*nm || nm[0] == '.' || nm[0] == '$')
                                continue;
                        LibSym ls;
                        ls.addr = g_lib.base + sy[k].st_value;
                        ls.size = sy[k].st_size;
                        ls.name = nm;
                        ls.type = ty == STT_FUNC ? 'F' : ty == STT_OBJECT ? 'O' : 'N';
                        g_lib.syms.push_back(ls);
                }
        }
        munmap(m, st.st_size);
        std::stable_sort(g_lib.syms.begin(), g_lib.syms.end(), [](const LibSym &a, const LibSym &b) { return a.addr < b.addr; });
        return !g_lib.syms.empty();
}

// ---- giant source (mem.h)
static uint8_t *g_giant = nullptr;
static size_t g_giant_used = 0;
static const size_t GIANT_SIZE = ((size_t) 1 << 32) + ((size_t) 1 << 20);
uint8_t *giant_source(size_t used)
{
        if (!g_giant) {
                void *want = (void *) 0x3d0000000000ULL;
                void *p = mmap(want, GIANT_SIZE + 4096, PROT_READ | PROT_WRITE, MAP_PRIVATE | MAP_ANONYMOUS | MAP_NORESERVE | MAP_FIXED_NOREPLACE, -1, 0);
                if (p == MAP_FAILED)
                        return nullptr;
                g_giant = (uint8_t *) p;
                mprotect(g_giant + GIANT_SIZE, 4096, PROT_NONE);
        }
        if (used > g_giant_used)
                g_giant_used = used;
        return g_giant;
}
void giant_source_reset()
{
        if (g_giant && g_giant_used) {
                madvise(g_giant, (g_giant_used + 4095) & ~(size_t) 4095, MADV_DONTNEED);
                g_giant_used = 0;
        }
}
