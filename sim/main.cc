// main.cc — isal-sim: seeded plan generation, execution, determinism check, violation gating,
// shrinking, replay.
#include "sim.h"
#include "cpu.h"
#include <time.h>
#include <unistd.h>
#include <sys/mman.h>
#include <unordered_set>
#include <fstream>
#include <sstream>
#include <execinfo.h>
#include <exception>

std::vector<std::string> g_avoid;
static void write_file_raw(const char *path, const std::string &s)
{
        FILE *f = fopen(path, "w");
        if (f) {
                fwrite(s.data(), 1, s.size(), f);
                fclose(f);
        }
}

// AddressSanitizer flavour: the C sources of the library are instrumented (assembly is not); reports become SIGABRT, which
// the fault classifier turns into C05.abort.  ASan cannot continue after a report, so a violation ends the worker at once
// (no in-process gating or shrinking; the driver gates with fresh-process replays as usual).
#if defined(__SANITIZE_ADDRESS__)
static const bool g_asan = true;
#else
static const bool g_asan = false;
#endif
extern "C" __attribute__((used, visibility("default"))) const char *__asan_default_options()
{
        return "handle_segv=0:handle_sigbus=0:handle_abort=0:handle_sigill=0:handle_sigfpe=0:allow_user_segv_handler=1:detect_leaks=0:abort_on_error=1:"
               "detect_stack_use_after_return=0:use_sigaltstack=0:print_summary=0";
}

extern const Profile *const g_profiles[];
extern const int g_nprofiles;

const Profile *find_profile(const std::string &name)
{
        for (int i = 0; i < g_nprofiles; i++)
                if (name == g_profiles[i]->name)
                        return g_profiles[i];
        return nullptr;
}

static double now_s()
{
        struct timespec t;
        clock_gettime(CLOCK_MONOTONIC, &t);
        return t.tv_sec + t.tv_nsec * 1e-9;
}

void sim_run_begin(); // cpu/sched seams reset (cpu.cc)
void sim_run_end();

// a crash inside library code outside any guarded call (rare: init/reset/set_* helpers) ends the process; it is reported
// as a violation with the current plan as the replay file so that the driver can gate it like any other
static const Json *g_current_plan = nullptr;
static sigjmp_buf g_run_jb;
static volatile int g_run_jb_armed = 0;
static uint64_t g_foreign_crashes = 0;
static std::string g_crash_outdir = ".", g_crash_prop;
static int g_crash_worker = 0;
static bool g_crash_is_replay = false;
static void crash_hook(const char *sym, void *addr)
{
        if (!g_current_plan)
                return;
        std::string detail = strf("the library faulted at %s (address %p) in a call with valid arguments", sym, addr);
        if (g_crash_is_replay) {
                Json o = Json::obj();
                o.set("oracle", "C05.crash").set("detail", detail).set("hash", "00000000000c4a54").set("events", 0);
                printf("REPLAY %s\n", o.str().c_str());
                fflush(stdout);
                _exit(1);
        }
        std::string path = g_crash_outdir + strf("/viol_C05.crash_%d_%lld.json", g_crash_worker, (long long) g_current_plan->geti("index"));
        Json rep = Json::obj();
        rep.set("property", "C05").set("oracle", "C05.crash").set("detail", detail).set("plan", *g_current_plan);
        write_file_raw(path.c_str(), rep.str());
        if (g_crash_prop == "C05")
                printf("VIOL property=C05 oracle=C05.crash index=%lld file=%s hash=00000000000c4a54 detail=%s\n", (long long) g_current_plan->geti("index"), path.c_str(), detail.c_str());
        else {
                if (g_foreign_crashes++ < 3)
                        printf("NOTE foreign-violation property=C05 oracle=C05.crash index=%lld detail=%s\n", (long long) g_current_plan->geti("index"), detail.c_str());
                if (g_run_jb_armed) { // another property's check: abandon this run and carry on with the next seed
                        g_run_jb_armed = 0;
                        siglongjmp(g_run_jb, 1);
                }
        }
        printf("SUMMARY {\"worker\":%d,\"runs\":1,\"violations\":%d,\"foreign\":%d,\"counters\":{},\"samples\":[]}\n", g_crash_worker, g_crash_prop == "C05" ? 1 : 0, g_crash_prop == "C05" ? 0 : 1);
        fflush(stdout);
        _exit(g_crash_prop == "C05" ? 1 : 0);
}

static RunResult execute_once(const Json &plan, std::vector<std::string> *log = nullptr)
{
        g_current_plan = &plan;
        RunResult rr;
        Hist h;
        const Profile *p = find_profile(plan.gets("prof"));
        if (!p) {
                rr.fail("INFRA.profile", "unknown profile " + plan.gets("prof"));
                return rr;
        }
        g_arena.run_begin((size_t) ((uint64_t) plan.at("mem").geti("skip")), (size_t) ((uint64_t) plan.at("mem").geti("sub")));
        sim_run_begin();
        // swarm CPU: any profile's traffic can be routed through the implementations a lesser CPU would select
        // (cold start, real resolvers under simulated CPUID/XGETBV, a short trapped prefix of each selected kernel)
        const Json *cj = plan.find("cpu");
        bool swarm_cpu = cj && cj->t == Json::OBJ && strcmp(p->name, "cpu") && strcmp(p->name, "sched") && cpu_load_classes();
        CpuWin win;
        if (swarm_cpu) {
                win.cpu = cpu_from_plan(*cj);
                win.max_steps = 60 + (uint32_t) ((uint64_t) cj->geti("steps") % 200);
                cpu_cold_start();
                cpu_window_open(&win);
                COUNT("cpu.swarm_runs");
                g_cnt.m[strf("cpucfg.%08x.%08x.%08x.%02x.%d", win.cpu.l1_ecx, win.cpu.l7_ebx, win.cpu.l7_ecx, win.cpu.xcr0, win.cpu.l1_eax == 0x000406d8)]++;
        }
        p->exec(plan, rr, h);
        if (swarm_cpu) {
                cpu_window_close(&win);
                for (size_t i = 0; i < cpu_nslots(); i++) { // which implementations carried this run's traffic
                        std::string t = cpu_slot_target(i);
                        if (!t.empty())
                                g_cnt.m["cpu.select." + cpu_slot_name(i) + "=" + t]++;
                }
                cpu_cold_start();
                COUNTN("cpu.trapped_steps", win.total_steps);
                COUNTN("cpu.resolver_windows", win.windows);
                h.events += win.total_steps;
                if (win.viol && rr.oracle.find("C16") != 0) {
                        rr.oracle.clear();
                        rr.fail("C16.ud", strf("profile %s under simulated CPU {l1.ecx %08x l7.ebx %08x l7.ecx %08x xcr0 %x}: an instruction needing %s was executed in code selected by %s", p->name, win.cpu.l1_ecx, win.cpu.l7_ebx, win.cpu.l7_ecx, win.cpu.xcr0, need_str(win.viol_need).c_str(), win.last_resolver ? win.last_resolver->name.c_str() : "?"));
                }
        }
        sim_run_end();
        g_arena.run_end();
        rr.hash = mix64(h.h, hash_str(rr.oracle.c_str()));
        rr.sig = h.sig;
        rr.events = h.events;
        rr.unusual = h.unusual;
        rr.calls = h.calls;
        if (log)
                *log = h.log;
        return rr;
}

// A call is first suspected of hanging after ~6 s of CPU time inside it.  CPU time is the one quantity in a run the plan does not
// determine, so the suspicion is never the verdict: the plan is executed again with a 30 s limit and whatever that execution
// reports (a hang that persists, or the result of a call that was merely slow) is the run's result - in the search, in the
// in-process gate, while shrinking and in every replay alike.
static RunResult execute(const Json &plan, std::vector<std::string> *log = nullptr)
{
        RunResult r = execute_once(plan, log);
        size_t n = r.oracle.size();
        if (n > 5 && r.oracle.compare(n - 5, 5, ".hang") == 0) {
                g_watchdog_limit = 20;
                if (log)
                        log->clear();
                r = execute_once(plan, log);
                g_watchdog_limit = 3;
        }
        return r;
}

static bool execute_safely(const Json &plan, RunResult &rr, std::vector<std::string> *log)
{
        if (sigsetjmp(g_run_jb, 0) == 0) {
                g_run_jb_armed = 1;
                rr = execute(plan, log);
                g_run_jb_armed = 0;
                return true;
        }
        g_run_jb_armed = 0;
        t_guard = nullptr;
        sim_run_end();
        g_arena.run_end();
        return false;
}

// ------------------------------------------------------------------ shrinking
static int g_shrink_execs = 0;
static bool still_fails(const Json &plan, const std::string &oracle)
{
        g_shrink_execs++;
        RunResult r = execute(plan);
        return r.oracle == oracle;
}
static void collect_arrays(Json &j, const std::string &key, std::vector<Json *> &out)
{
        if (j.t == Json::OBJ)
                for (auto &p : j.o) {
                        if (p.second.t == Json::ARR && (p.first == "ops" || p.first == "tasks" || p.first == "msgs" || p.first == "faults"))
                                out.push_back(&p.second);
                        collect_arrays(p.second, p.first, out);
                }
        else if (j.t == Json::ARR)
                for (auto &e : j.a)
                        collect_arrays(e, key, out);
}
static void collect_ints(Json &j, std::vector<Json *> &out)
{
        if (j.t == Json::INT)
                out.push_back(&j);
        else if (j.t == Json::OBJ)
                for (auto &p : j.o) {
                        if (p.first == "prof" || p.first == "focus" || p.first == "avoid")
                                continue;
                        collect_ints(p.second, out);
                }
        else if (j.t == Json::ARR)
                for (auto &e : j.a)
                        collect_ints(e, out);
}
static Json shrink(Json plan, const std::string &oracle, int budget)
{
        g_shrink_execs = 0;
        bool progress = true;
        while (progress && g_shrink_execs < budget) {
                progress = false;
                // (1) ddmin over op arrays.  Arrays can nest ("tasks" contain "ops"): pointers are re-collected after every
                // successful removal, because erasing elements of an outer array invalidates pointers into it.
                for (size_t ai = 0;; ai++) {
                        std::vector<Json *> arrs;
                        collect_arrays(plan, "", arrs);
                        if (ai >= arrs.size())
                                break;
                        size_t chunk = arrs[ai]->a.size() / 2;
                        while (chunk >= 1 && g_shrink_execs < budget) {
                                bool removed = false;
                                for (size_t start = 0; g_shrink_execs < budget;) {
                                        arrs.clear();
                                        collect_arrays(plan, "", arrs);
                                        if (ai >= arrs.size())
                                                break;
                                        Json *arr = arrs[ai];
                                        if (start + chunk > arr->a.size())
                                                break;
                                        Json saved = plan;
                                        arr->a.erase(arr->a.begin() + start, arr->a.begin() + start + chunk);
                                        if (still_fails(plan, oracle)) {
                                                removed = true;
                                                progress = true;
                                        } else {
                                                plan = saved;
                                                start += chunk;
                                        }
                                }
                                arrs.clear();
                                collect_arrays(plan, "", arrs);
                                if (ai >= arrs.size())
                                        break;
                                if (!removed || chunk > arrs[ai]->a.size())
                                        chunk /= 2;
                                if (chunk > arrs[ai]->a.size())
                                        chunk = arrs[ai]->a.size();
                        }
                }
                // (2) integer leaves toward 0 / 1 / half
                std::vector<Json *> ints;
                collect_ints(plan, ints);
                for (Json *leaf : ints) {
                        if (g_shrink_execs >= budget)
                                break;
                        int64_t v = leaf->i;
                        if (v == 0)
                                continue;
                        int64_t cands[4] = { 0, 1, v / 2, v - 1 };
                        for (int64_t c : cands) {
                                if (v < 0 ? c != 0 : (c < 0 || c >= v))
                                        continue;
                                leaf->i = c;
                                if (still_fails(plan, oracle)) {
                                        progress = true;
                                        v = c;
                                        break;
                                }
                                leaf->i = v;
                        }
                }
        }
        return plan;
}

// ------------------------------------------------------------------ commands
static std::string read_file(const std::string &path)
{
        std::ifstream f(path);
        std::stringstream ss;
        ss << f.rdbuf();
        return ss.str();
}
static void write_file(const std::string &path, const std::string &s)
{
        std::ofstream f(path);
        f << s;
}

struct ProfWeight {
        const Profile *p;
        uint32_t w;
};

static Json gen_plan(uint64_t seed, uint64_t index, const std::vector<ProfWeight> &pw, const std::string &focus, int tier)
{
        uint64_t x = seed ^ (index * 0x9e3779b97f4a7c15ULL);
        uint64_t runseed = splitmix64(x);
        Rng r(runseed, "run");
        uint32_t total = 0;
        for (auto &q : pw)
                total += q.w;
        uint32_t pick = (uint32_t) r.below(total);
        const Profile *p = pw[0].p;
        for (auto &q : pw) {
                if (pick < q.w) {
                        p = q.p;
                        break;
                }
                pick -= q.w;
        }
        Json plan = p->gen(r, focus, tier);
        plan.set("seed", seed & 0x7fffffffffffffffULL).set("index", index);
        return plan;
}

static void __attribute__((noinline)) dirty_stack(int pat)
{
        volatile uint8_t big[400000];
        for (size_t i = 0; i < sizeof big; i++)
                big[i] = (uint8_t) (pat + (pat > 255 ? i : 0));
}
static int cmd_replay(const std::string &path, bool trace)
{
        if (const char *ds = getenv("SIM_DIRTY_STACK"))
                dirty_stack(atoi(ds));
        Json plan;
        if (!Json::parse(read_file(path), plan)) {
                fprintf(stderr, "cannot parse %s\n", path.c_str());
                return 2;
        }
        g_trace = trace ? 2 : 0;
        g_crash_is_replay = true;
        g_crash_hook = crash_hook;
        const Json *pl = plan.find("plan");
        RunResult rr = execute(pl ? *pl : plan);
        Json o = Json::obj();
        o.set("oracle", rr.oracle).set("detail", rr.detail).set("hash", strf("%016llx", (unsigned long long) rr.hash)).set("events", rr.events);
        if (g_infra_faults)
                printf("INFRA %s\n", g_infra_msg.substr(0, 300).c_str());
        printf("REPLAY %s\n", o.str().c_str());
        return rr.violated() ? 1 : 0;
}

static int cmd_run(int argc, char **argv)
{
        std::string prop, profs, outdir = ".";
        uint64_t seed = 1, maxruns = ~0ULL, from = 0;
        int worker = 0, nworkers = 1, tier = 0;
        double secs = 10;
        int det_every = 16, shrink_budget = 600, max_viol = 20;
        FILE *hashlog = nullptr;
        for (int i = 2; i < argc; i++) {
                std::string a = argv[i];
                auto next = [&]() { return std::string(i + 1 < argc ? argv[++i] : ""); };
                if (a == "--prop")
                        prop = next();
                else if (a == "--profiles")
                        profs = next();
                else if (a == "--seed")
                        seed = strtoull(next().c_str(), 0, 0);
                else if (a == "--worker")
                        worker = atoi(next().c_str());
                else if (a == "--nworkers")
                        nworkers = atoi(next().c_str());
                else if (a == "--secs")
                        secs = atof(next().c_str());
                else if (a == "--maxruns")
                        maxruns = strtoull(next().c_str(), 0, 0);
                else if (a == "--out")
                        outdir = next();
                else if (a == "--from")
                        from = strtoull(next().c_str(), 0, 0);
                else if (a == "--tier")
                        tier = next() == "thorough" ? 1 : 0;
                else if (a == "--det-every")
                        det_every = atoi(next().c_str());
                else if (a == "--hashlog")
                        hashlog = fopen(next().c_str(), "w");
                else if (a == "--max-viol")
                        max_viol = atoi(next().c_str());
                else if (a == "--avoid")
                        g_avoid.push_back(next());
                else if (a == "--trace")
                        g_trace = 2;
        }
        std::vector<ProfWeight> pw;
        {
                std::stringstream ss(profs);
                std::string item;
                while (std::getline(ss, item, ',')) {
                        size_t c = item.find(':');
                        std::string n = item.substr(0, c);
                        uint32_t w = c == std::string::npos ? 1 : (uint32_t) atoi(item.c_str() + c + 1);
                        const Profile *p = find_profile(n);
                        if (!p) {
                                fprintf(stderr, "unknown profile %s\n", n.c_str());
                                return 2;
                        }
                        pw.push_back({ p, w });
                }
        }
        if (pw.empty()) {
                fprintf(stderr, "no profiles\n");
                return 2;
        }
        g_crash_outdir = outdir;
        g_crash_prop = prop;
        g_crash_worker = worker;
        g_crash_hook = crash_hook;
        double t0 = now_s();
        uint64_t runs = 0, nontrivial = 0, events = 0, det_pairs = 0, own_viol = 0, foreign = 0, calls = 0;
        std::unordered_set<uint64_t> sigs, sigs_nt;
        std::vector<Json> samples;
        std::map<std::string, uint64_t> foreign_by;
        int shrinks = 0, shrink_execs_total = 0;
        for (uint64_t k = from; k < maxruns; k++) {
                if ((k & 7) == 0 && now_s() - t0 > secs)
                        break;
                uint64_t index = k * nworkers + worker;
                if (getenv("SIM_PROGRESS"))
                        fprintf(stderr, "index %llu\n", (unsigned long long) index);
                Json plan = gen_plan(seed, index, pw, prop, tier);
                if (getenv("SIM_RO_AFTER") && k == (uint64_t) atoll(getenv("SIM_RO_AFTER"))) {
                        uintptr_t lo = g_lib.rw_lo & ~4095ul, hi = (g_lib.rw_hi + 4095) & ~4095ul;
                        if (mprotect((void *) lo, hi - lo, PROT_READ))
                                perror("mprotect lib");
                }
                std::vector<std::string> log1;
                if (getenv("SIM_TRACE_DET"))
                        g_trace = 1;
                RunResult rr;
                if (!execute_safely(plan, rr, &log1)) {
                        runs++;
                        foreign++;
                        foreign_by["C05.crash"]++;
                        continue;
                }
                runs++;
                if (rr.violated() && g_asan && rr.oracle == "C05.abort") {
                        std::string path = outdir + strf("/viol_%s_%d_%llu.json", rr.oracle.c_str(), worker, (unsigned long long) index);
                        Json rep = Json::obj();
                        rep.set("property", "C05").set("oracle", rr.oracle).set("detail", rr.detail).set("plan", plan);
                        write_file(path, rep.str());
                        if (prop == "C05")
                                printf("VIOL property=C05 oracle=%s index=%llu file=%s hash=%016llx detail=%s\n", rr.oracle.c_str(), (unsigned long long) index, path.c_str(), (unsigned long long) rr.hash, rr.detail.c_str());
                        else
                                printf("NOTE foreign-violation property=C05 oracle=%s index=%llu detail=(AddressSanitizer report) %s\n", rr.oracle.c_str(), (unsigned long long) index, rr.detail.c_str());
                        printf("SUMMARY {\"worker\":%d,\"runs\":%llu,\"violations\":%d,\"foreign\":%d,\"counters\":{},\"samples\":[]}\n", worker, (unsigned long long) runs, prop == "C05" ? 1 : 0, prop == "C05" ? 0 : 1);
                        fflush(stdout);
                        _exit(prop == "C05" ? 1 : 0);
                }
                if (hashlog)
                        fprintf(hashlog, "%llu %016llx %s\n", (unsigned long long) index, (unsigned long long) rr.hash, rr.oracle.c_str());
                events += rr.events;
                calls += rr.calls;
                sigs.insert(rr.sig);
                if (rr.calls >= 2 && rr.unusual >= 1) {
                        nontrivial++;
                        sigs_nt.insert(rr.sig);
                }
                if (samples.size() < 3 && (rr.calls >= 2 || k > 50))
                        samples.push_back(plan);
                if (det_every && (k % det_every) == 0) {
                        Json plan2 = plan;
                        if (getenv("SIM_REGS_TWIN")) {
                                Json *m = plan2.find("mem");
                                if (m)
                                        m->set("regs", (int64_t) (m->geti("regs") + 12345));
                        }
                        RunResult r2 = execute(plan2);
                        det_pairs++;
                        if (r2.hash != rr.hash || r2.oracle != rr.oracle) {
                                printf("INFRA nondeterminism index=%llu hash %016llx vs %016llx oracle '%s' vs '%s'\n", (unsigned long long) index, (unsigned long long) rr.hash, (unsigned long long) r2.hash, rr.oracle.c_str(), r2.oracle.c_str());
                                {
                                        std::vector<std::string> l1, l2;
                                        g_trace = 1;
                                        RunResult a1 = execute(plan, &l1), a2 = execute(plan, &l2);
                                        if (!log1.empty())
                                                l1 = log1;
                                        g_trace = 0;
                                        printf("INFRA   re-run hashes %016llx %016llx\n", (unsigned long long) a1.hash, (unsigned long long) a2.hash);
                                        for (size_t q = 0; q < l1.size() && q < l2.size(); q++)
                                                if (l1[q] != l2[q]) {
                                                        for (size_t z = q > 6 ? q - 6 : 0; z < q; z++)
                                                                printf("INFRA      ctx %s\n", l1[z].c_str());
                                                        printf("INFRA   first divergence at event %zu:\n    %s\n    %s\n", q, l1[q].c_str(), l2[q].c_str());
                                                        break;
                                                }
                                }
                                write_file(outdir + strf("/nondet_%d_%llu.json", worker, (unsigned long long) index), plan.str());
                                fflush(stdout);
                                return 2;
                        }
                }
                if (rr.violated()) {
                        std::string vprop = property_of(rr.oracle);
                        bool own = vprop == prop || rr.alt == prop;
                        if (!own) {
                                foreign++;
                                if (foreign_by[rr.oracle]++ < 3) {
                                        printf("NOTE foreign-violation property=%s oracle=%s index=%llu detail=%s\n", vprop.c_str(), rr.oracle.c_str(), (unsigned long long) index, rr.detail.c_str());
                                        write_file(outdir + strf("/foreign_%s_%d_%llu.json", rr.oracle.c_str(), worker, (unsigned long long) index), plan.str());
                                }
                                continue;
                        }
                        own_viol++;
                        // gate 1: same plan, same process, same hash and oracle
                        RunResult r2 = execute(plan);
                        if (r2.hash != rr.hash || r2.oracle != rr.oracle) {
                                printf("INFRA violation does not reproduce in-process index=%llu oracle=%s\n", (unsigned long long) index, rr.oracle.c_str());
                                fflush(stdout);
                                return 2;
                        }
                        Json minp = plan;
                        if (own_viol <= 3) {
                                minp = shrink(plan, rr.oracle, shrink_budget);
                                shrinks++;
                                shrink_execs_total += g_shrink_execs;
                        }
                        RunResult rm = execute(minp);
                        Json rep = Json::obj();
                        rep.set("property", prop).set("oracle", rm.oracle).set("detail", rm.detail).set("hash", strf("%016llx", (unsigned long long) rm.hash)).set("seed", seed).set("index", index).set("shrink_execs", g_shrink_execs).set("plan", minp).set("original_plan", plan);
                        std::string path = outdir + strf("/viol_%s_%d_%llu.json", rr.oracle.c_str(), worker, (unsigned long long) index);
                        write_file(path, rep.str());
                        printf("VIOL property=%s oracle=%s index=%llu file=%s hash=%016llx detail=%s\n", prop.c_str(), rm.oracle.c_str(), (unsigned long long) index, path.c_str(), (unsigned long long) rm.hash, rm.detail.c_str());
                        fflush(stdout);
                        if (own_viol >= (uint64_t) max_viol)
                                break;
                }
        }
        double wall = now_s() - t0;
        if (hashlog)
                fclose(hashlog);
        // signatures to file for cross-worker merge
        {
                std::string sp = outdir + strf("/sigs_%d.bin", worker);
                FILE *f = fopen(sp.c_str(), "wb");
                if (f) {
                        for (uint64_t s : sigs_nt)
                                fwrite(&s, 8, 1, f);
                        fclose(f);
                }
        }
        Json sum = Json::obj();
        sum.set("worker", worker).set("runs", runs).set("nontrivial_runs", nontrivial).set("distinct_sigs", (uint64_t) sigs.size()).set("distinct_nontrivial_sigs", (uint64_t) sigs_nt.size());
        sum.set("events", events).set("calls", calls).set("det_pairs", det_pairs).set("violations", own_viol).set("foreign", foreign).set("wall_ms", (uint64_t) (wall * 1000));
        sum.set("shrinks", shrinks).set("shrink_execs", shrink_execs_total).set("infra_faults", g_infra_faults);
        Json cn = Json::obj();
        for (auto &p : g_cnt.m)
                if (p.second)
                        cn.set(p.first, p.second);
        sum.set("counters", cn);
        Json fb = Json::obj();
        for (auto &p : foreign_by)
                fb.set(p.first, p.second);
        sum.set("foreign_by_oracle", fb);
        Json sm = Json::arr();
        for (auto &s : samples)
                sm.push(s);
        sum.set("samples", sm);
        printf("SUMMARY %s\n", sum.str().c_str());
        fflush(stdout);
        if (g_infra_faults) {
                printf("INFRA %s\n", g_infra_msg.c_str());
                return 2;
        }
        return own_viol ? 1 : 0;
}

static int cmd_merge(int argc, char **argv)
{
        std::vector<uint64_t> all;
        for (int i = 2; i < argc; i++) {
                FILE *f = fopen(argv[i], "rb");
                if (!f)
                        continue;
                uint64_t v;
                while (fread(&v, 8, 1, f) == 1)
                        all.push_back(v);
                fclose(f);
        }
        std::sort(all.begin(), all.end());
        size_t d = std::unique(all.begin(), all.end()) - all.begin();
        printf("%zu\n", d);
        return 0;
}

bool cpu_seam_init(); // cpu.cc
void cpu_lib_monitor(bool on);
int cmd_selfcheck(uint64_t n, uint64_t seed);

int main(int argc, char **argv)
{
        setvbuf(stdout, 0, _IOLBF, 0);
        std::set_terminate([]() {
                void *bt[40];
                int n = backtrace(bt, 40);
                backtrace_symbols_fd(bt, n, 2);
                _exit(70);
        });
        if (argc < 2) {
                fprintf(stderr, "usage: isal-sim selftest | run ... | replay <file> [--trace] | gen ... | merge-sigs files...\n");
                return 2;
        }
        std::string cmd = argv[1];
        if (cmd == "replay" && argc > 2) {
                // a replay file found under another library flavour (dbg: live asserts, asan) names it: hand over to that flavour's binary
                Json pj;
                if (Json::parse(read_file(argv[2]), pj)) {
                        std::string fl = pj.gets("flavour");
                        if (!fl.empty() && fl != SIM_FLAVOUR && fl.find('/') == std::string::npos) {
                                char self[4096];
                                ssize_t n = readlink("/proc/self/exe", self, sizeof self - 1);
                                if (n > 0) {
                                        self[n] = 0;
                                        std::string dir = self;
                                        dir = dir.substr(0, dir.rfind('/'));
                                        dir = dir.substr(0, dir.rfind('/'));
                                        std::string other = dir + "/" + fl + "/isal-sim";
                                        if (access(other.c_str(), X_OK) == 0) {
                                                execv(other.c_str(), argv);
                                                perror("execv");
                                        } else
                                                fprintf(stderr, "NOTE replay file was found under flavour '%s' (%s is not built: run `make FLAVOUR=%s`); replaying under '%s'\n", fl.c_str(), other.c_str(), fl.c_str(), SIM_FLAVOUR);
                                }
                        }
                }
        }
        if (cmd == "merge-sigs")
                return cmd_merge(argc, argv);
        g_arena.init(224ull << 20);
        mem_install_handlers();
        if (!libinfo_init()) {
                fprintf(stderr, "INFRA cannot locate libisal image / symbols\n");
                return 2;
        }
        std::string why;
        if (!ref_selftest(why)) {
                fprintf(stderr, "INFRA reference self-test failed: %s\n", why.c_str());
                return 2;
        }
        if (!cpu_seam_init()) {
                fprintf(stderr, "INFRA cpu seam init failed\n");
                return 2;
        }
        if (cmd == "selftest") {
                printf("selftest ok: lib %s base %lx rw %lx-%lx syms %zu\n", g_lib.path.c_str(), (unsigned long) g_lib.base, (unsigned long) g_lib.rw_lo, (unsigned long) g_lib.rw_hi, g_lib.syms.size());
                return 0;
        }
        if (cmd == "selfcheck")
                return cmd_selfcheck(argc > 2 ? strtoull(argv[2], 0, 0) : 2000, argc > 3 ? strtoull(argv[3], 0, 0) : 1);
        if (cmd == "run" || cmd == "replay") {
                // C15 monitor, active in every run of every profile: the library's own writable data is write-protected; the
                // only store let through (emulated) is a resolver publishing its dispatch slot
                if (!getenv("SIM_NO_LIBDATA_MONITOR"))
                        cpu_lib_monitor(true);
                reach_arm();
                int rc = cmd == "run" ? cmd_run(argc, argv) : cmd_replay(argc > 2 ? argv[2] : "", argc > 3 && !strcmp(argv[3], "--trace"));
                reach_dump();
                cpu_lib_monitor(false); // the C runtime writes completed.0 in the library's .bss at exit
                return rc;
        }
        if (cmd == "gen") {
                std::string prop = argc > 2 ? argv[2] : "C07", prof = argc > 3 ? argv[3] : "deflate";
                uint64_t seed = argc > 4 ? strtoull(argv[4], 0, 0) : 1, idx = argc > 5 ? strtoull(argv[5], 0, 0) : 0;
                const Profile *p = find_profile(prof);
                if (!p)
                        return 2;
                std::vector<ProfWeight> pw { { p, 1 } };
                printf("%s\n", gen_plan(seed, idx, pw, prop, 0).str().c_str());
                return 0;
        }
        fprintf(stderr, "unknown command %s\n", cmd.c_str());
        return 2;
}
