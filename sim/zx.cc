// zx.cc — zlib as (a) a foreign encoder and (b) a second opinion used only to cross-check the
// reference inflater.  zlib is never the oracle: it is stricter than RFC 1951 decodability.
#include "sim.h"
#include <zlib.h>

uint64_t g_infra_faults = 0;
std::string g_infra_msg;

static int wbits_for(int wrap, int wbits)
{
        switch (wrap) {
        case RW_GZIP: return wbits + 16;
        case RW_ZLIB: return wbits;
        default: return -wbits;
        }
}

std::vector<uint8_t> zlib_compress(const std::vector<uint8_t> &data, int wrap, int level, int strategy, int wbits, int memlevel, const uint8_t *dict,
                                   size_t dict_len)
{
        z_stream z;
        memset(&z, 0, sizeof z);
        std::vector<uint8_t> out;
        if (wbits < 9)
                wbits = 9;
        if (wbits > 15)
                wbits = 15;
        if (deflateInit2(&z, level, Z_DEFLATED, wbits_for(wrap, wbits), memlevel, strategy) != Z_OK)
                return out;
        if (dict && dict_len && wrap != RW_GZIP)
                deflateSetDictionary(&z, dict, (uInt) dict_len);
        out.resize(deflateBound(&z, data.size()) + 64);
        z.next_in = (Bytef *) data.data();
        z.avail_in = (uInt) data.size();
        z.next_out = out.data();
        z.avail_out = (uInt) out.size();
        int r = deflate(&z, Z_FINISH);
        if (r != Z_STREAM_END)
                out.clear();
        else
                out.resize(z.total_out);
        deflateEnd(&z);
        return out;
}

// returns true when zlib's verdict is compatible with the reference's.
bool zlib_agrees(int wrap, const uint8_t *in, size_t len, int ref_status, const std::vector<uint8_t> &ref_out, std::string &why, const uint8_t *dict,
                 size_t dict_len)
{
        if (wrap == RW_GZIP_TRL || wrap == RW_ZLIB_TRL)
                return true; // zlib has no trailer-only mode
        z_stream z;
        memset(&z, 0, sizeof z);
        if (inflateInit2(&z, wbits_for(wrap, 15)) != Z_OK)
                return true;
        if (dict && dict_len && wrap == RW_RAW)
                inflateSetDictionary(&z, dict, (uInt) dict_len);
        std::vector<uint8_t> out(ref_out.size() + 1024);
        z.next_in = (Bytef *) in;
        z.avail_in = (uInt) len;
        z.next_out = out.data();
        z.avail_out = (uInt) out.size();
        int r = inflate(&z, Z_FINISH);
        if (r == Z_NEED_DICT && dict) {
                int sr = inflateSetDictionary(&z, dict, (uInt) dict_len);
                if (sr != Z_OK) { // DICTID in a (possibly damaged) header does not match: zlib is stricter than decodability
                        inflateEnd(&z);
                        return true;
                }
                r = inflate(&z, Z_FINISH);
        }
        bool ok = true;
        const char *msg = z.msg ? z.msg : "";
        if (ref_status == REF_DONE) {
                if (r == Z_STREAM_END) {
                        ok = z.total_out == ref_out.size() && !memcmp(out.data(), ref_out.data(), ref_out.size());
                        if (!ok)
                                why = strf("both accept but bytes differ (zlib %lu, ref %zu)", z.total_out, ref_out.size());
                } else if (r == Z_DATA_ERROR && (strstr(msg, "invalid code lengths set") || strstr(msg, "invalid literal/lengths set") ||
                                                 strstr(msg, "invalid distances set") || strstr(msg, "unknown header flags") ||
                                                 strstr(msg, "too many length or distance symbols") || strstr(msg, "invalid window size") ||
                                                 strstr(msg, "header crc mismatch") || strstr(msg, "invalid code -- missing end-of-block"))) {
                        ok = true; // zlib's documented stricter-than-RFC cases
                } else {
                        ok = false;
                        why = strf("reference accepts, zlib returns %d (%s)", r, msg);
                }
        } else if (ref_status < 0 && ref_status != REF_ERR_OUTLIMIT) {
                if (r == Z_STREAM_END) {
                        ok = false;
                        why = strf("reference rejects (%s), zlib accepts", ref_status_name(ref_status));
                }
        }
        inflateEnd(&z);
        return ok;
}
