// ref.h — independent reference models (oracles): RFC 1951 inflater with RFC 1950/1952 wrappers,
// CRC-32, Adler-32, gzip/zlib header codec, GF(2^8) arithmetic.  Written from the RFCs, table-free
// decode (canonical codes by counting), resumable, instrumented.
#pragma once
#include "base.h"

uint32_t ref_crc32(uint32_t crc, const uint8_t *p, size_t n);   // gzip CRC-32 (reflected 0xEDB88320), crc=0 to start
uint32_t ref_crc32_bitserial(uint32_t crc, const uint8_t *p, size_t n);
uint32_t ref_adler32(uint32_t adler, const uint8_t *p, size_t n); // adler=1 to start
uint8_t ref_gf_mul(uint8_t a, uint8_t b);                       // GF(2^8) / 0x11D
bool ref_selftest(std::string &why);

enum RefStatus {
        REF_DONE = 0,
        REF_NEED_MORE = 1,
        REF_NEED_DICT = 2,
        REF_ERR_BTYPE = -1,
        REF_ERR_STORED = -2,
        REF_ERR_OVERSUB = -3,
        REF_ERR_REPEAT = -4,
        REF_ERR_NOEOB = -5,
        REF_ERR_BADSYM = -6,
        REF_ERR_UNASSIGNED = -7,
        REF_ERR_DIST = -8,
        REF_ERR_MAGIC = -20,
        REF_ERR_METHOD = -21,
        REF_ERR_FCHECK = -22,
        REF_ERR_TRAILER = -23,
        REF_ERR_OUTLIMIT = -30, // output cap reached (infrastructure bound, not a verdict)
};
const char *ref_status_name(int s);

enum RefWrap { RW_RAW = 0, RW_GZIP = 1, RW_GZIP_TRL = 2, RW_ZLIB = 3, RW_ZLIB_TRL = 4 }; // *_TRL: no header, trailer present

struct RefGzipHdr {
        bool present = false;
        uint8_t flg = 0, xfl = 0, os = 0, cm = 0;
        uint32_t mtime = 0;
        std::vector<uint8_t> extra;
        std::string name, comment;
        bool has_extra = false, has_name = false, has_comment = false, has_hcrc = false;
        uint16_t hcrc_stored = 0, hcrc_computed = 0;
        size_t len = 0; // header length in bytes
};
struct RefZlibHdr {
        bool present = false;
        uint8_t cmf = 0, flg = 0;
        bool fdict = false;
        uint32_t dictid = 0;
        size_t len = 0;
};

struct RefBlock {
        int type;
        bool bfinal;
        uint64_t start_bit, end_bit; // end_bit = bit after the EOB / last stored byte (0 while open)
        uint64_t out_start, out_end;
        uint32_t max_dist;
        uint32_t max_code_len;
        uint32_t nsyms;
};

struct RefInflate {
        // ---- configuration
        int wrap = RW_RAW;
        const uint8_t *dict = nullptr;
        size_t dict_len = 0;
        size_t out_limit = 64u << 20;
        bool strict_trailer = true; // trailer mismatch => REF_ERR_TRAILER (else recorded in trailer_ok only)
        // ---- results / instrumentation
        std::vector<uint8_t> out;
        std::vector<RefBlock> blocks;
        RefGzipHdr gz;
        RefZlibHdr zl;
        uint32_t max_dist = 0;       // over the whole stream
        int64_t min_reach = 0;       // min over matches of (position - distance); negative = into the dictionary
        int64_t floor = INT64_MIN;   // once set: later matches must not reach below it (full-flush independence)
        bool floor_violated = false;
        uint64_t floor_viol_pos = 0, floor_viol_dist = 0;
        uint64_t deflate_end_bit = 0; // bit position just after the final block
        size_t end_byte = 0;          // byte position just after the stream (incl. trailer)
        bool trailer_ok = true;
        uint32_t trailer_crc = 0, trailer_isize = 0;
        int status = REF_NEED_MORE;
        uint64_t err_bit = 0;         // bit position of the step that failed
        // ---- resumable state
        uint64_t bitpos = 0;
        int phase = 0;
        bool cur_final = false;
        uint32_t stored_left = 0;
        // current block codes
        uint16_t lcount[16], lsym[288], dcount[16], dsym[32];

        void init(int wrap_, const uint8_t *dict_ = nullptr, size_t dict_len_ = 0);
        // buf/len: the whole stream available so far (a growing prefix).  Returns status.
        int feed(const uint8_t *buf, size_t len);
        // true when the decoder is exactly at a block boundary on a byte boundary
        bool at_block_boundary() const { return phase == 1; }
        void set_floor() { floor = (int64_t) out.size(); }
};

// one-call convenience
int ref_inflate_all(int wrap, const uint8_t *in, size_t len, std::vector<uint8_t> &out, RefInflate *ri_out = nullptr,
                    const uint8_t *dict = nullptr, size_t dict_len = 0);

// ---- header producers (RFC 1952 / RFC 1950), independent of ISA-L
struct GzFields {
        bool text = false;
        uint32_t mtime = 0;
        uint8_t xfl = 0, os = 0xff;
        bool has_extra = false, has_name = false, has_comment = false, hcrc = false;
        std::vector<uint8_t> extra;
        std::string name, comment; // without the terminating NUL
};
std::vector<uint8_t> ref_gzip_header(const GzFields &f);
std::vector<uint8_t> ref_zlib_header(unsigned cinfo, unsigned level, bool fdict, uint32_t dictid);
