// defgen.h — grammar-based generator of deflate streams (valid, or with one named fault injected at a
// known bit position).  Independent of ISA-L and zlib: produces block types, code shapes and distances
// that ISA-L's own compressor never emits.
#pragma once
#include "base.h"

enum GrammarFault {
        GF_NONE = 0,
        GF_LEN_NLEN,       // stored block: NLEN != ~LEN                      -> invalid block
        GF_BTYPE3,         // reserved block type                             -> invalid block
        GF_HLIT_RANGE,     // HLIT field 30/31                                 -> invalid block
        GF_HDIST_RANGE,    // HDIST field 30/31                                -> invalid block
        GF_OVERSUB_CL,     // over-subscribed code-length code                 -> invalid block
        GF_OVERSUB_LL,     // over-subscribed literal/length code              -> invalid block
        GF_OVERSUB_D,      // over-subscribed distance code                    -> invalid block
        GF_REPEAT_FIRST,   // repeat-previous (16) with no previous length     -> invalid block
        GF_REPEAT_OVERFLOW,// repeat runs past HLIT+HDIST                      -> invalid block
        GF_NO_EOB,         // end-of-block symbol has no code                  -> invalid block
        GF_UNASSIGNED,     // a code word that no symbol owns (incomplete set) -> invalid symbol
        GF_LEN_SYM_286,    // literal/length symbol 286 or 287 (fixed block)   -> invalid symbol
        GF_DIST_SYM_30,    // distance symbol 30 or 31 (fixed block)           -> invalid symbol
        GF_DIST_TOO_FAR,   // distance one past the bytes produced             -> invalid look-back
        GF_UNASSIGNED_DIST,// a distance code word that no symbol owns (incomplete distance set, code lengths up to 15) -> invalid symbol
        GF_NKINDS
};
const char *grammar_fault_name(int k);

struct DefGenOut {
        std::vector<uint8_t> bytes;  // raw deflate stream
        std::vector<uint8_t> plain;  // what it decodes to (up to the fault, if any)
        uint64_t nbits = 0;
        int fault = GF_NONE;
        uint64_t fault_bit = 0;      // first bit of the faulty element
        uint64_t fault_end_bit = 0;  // bit after the faulty element
        std::vector<uint64_t> block_start_bits;
        uint32_t max_dist = 0, max_code_len = 0, nblocks = 0;
        bool has_incomplete = false, has_single_code = false;
};
// spec: {"s":seed,"n":approx plain bytes,"fault":kind,"dict":bytes of preset dictionary available (0..32768)}
DefGenOut gen_deflate_stream(const Json &spec);
