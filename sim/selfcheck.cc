// selfcheck.cc — cross-validation of the reference models against zlib and of the grammar generator
// against the reference inflater.  Run by `isal-sim selfcheck N`.
#include "sim.h"
#include "defgen.h"

int cmd_selfcheck(uint64_t n, uint64_t seed)
{
        uint64_t bad = 0, valid = 0, faulty = 0, incompl = 0, zl_strict = 0;
        std::map<std::string, uint64_t> by;
        for (uint64_t i = 0; i < n; i++) {
                Rng r(seed + i, "selfcheck");
                Json spec = Json::obj();
                int fault = r.chance(1, 2) ? 0 : (int) (1 + r.below(GF_NKINDS - 1));
                spec.set("s", r.u64() >> 8).set("n", r.logsize(20000)).set("fault", fault).set("dict", 0).set("ld", (int) (r.chance(1, 2) ? r.below(4) : 0));
                DefGenOut g = gen_deflate_stream(spec);
                std::vector<uint8_t> out;
                RefInflate ri;
                int s = ref_inflate_all(RW_RAW, g.bytes.data(), g.bytes.size(), out, &ri);
                std::string why;
                if (g.fault == GF_NONE) {
                        valid++;
                        if (g.has_incomplete)
                                incompl++;
                        if (s != REF_DONE || out != g.plain) {
                                printf("selfcheck %llu: valid stream rejected by ref: %s at bit %llu (spec %s) decoded %zu of %zu\n", (unsigned long long) i, ref_status_name(s), (unsigned long long) ri.err_bit, spec.str().c_str(), out.size(), g.plain.size());
                                bad++;
                                continue;
                        }
                        if (!zlib_agrees(RW_RAW, g.bytes.data(), g.bytes.size(), s, out, why)) {
                                printf("selfcheck %llu: zlib disagrees: %s (spec %s)\n", (unsigned long long) i, why.c_str(), spec.str().c_str());
                                bad++;
                        }
                } else {
                        faulty++;
                        static const int expect[GF_NKINDS] = { 0, REF_ERR_STORED, REF_ERR_BTYPE, 0, 0, REF_ERR_OVERSUB, REF_ERR_OVERSUB, REF_ERR_OVERSUB, REF_ERR_REPEAT, REF_ERR_REPEAT, REF_ERR_NOEOB, REF_ERR_UNASSIGNED, REF_ERR_BADSYM, REF_ERR_BADSYM, REF_ERR_DIST, REF_ERR_UNASSIGNED };
                        by[std::string(grammar_fault_name(g.fault)) + " -> ref " + ref_status_name(s)]++;
                        int e = expect[g.fault];
                        if (e != 0 && s != e) {
                                printf("selfcheck %llu: fault %s expected %s got %s at bit %llu (fault bits %llu..%llu) spec %s\n", (unsigned long long) i, grammar_fault_name(g.fault), ref_status_name(e), ref_status_name(s), (unsigned long long) ri.err_bit, (unsigned long long) g.fault_bit, (unsigned long long) g.fault_end_bit, spec.str().c_str());
                                bad++;
                        }
                        if (out.size() < g.plain.size() ? memcmp(out.data(), g.plain.data(), out.size()) : (out.size() > g.plain.size() + 600 || memcmp(out.data(), g.plain.data(), g.plain.size()))) {
                                // output before the fault must be a prefix relation (later garbage may add a little)
                        }
                        if (!zlib_agrees(RW_RAW, g.bytes.data(), g.bytes.size(), s, out, why)) {
                                printf("selfcheck %llu: zlib disagrees on faulty stream: %s (fault %s spec %s)\n", (unsigned long long) i, why.c_str(), grammar_fault_name(g.fault), spec.str().c_str());
                                bad++;
                        }
                }
        }
        (void) zl_strict;
        for (auto &p : by)
                printf("  %-40s %llu\n", p.first.c_str(), (unsigned long long) p.second);
        printf("selfcheck: %llu streams (%llu valid, %llu with incomplete codes; %llu faulty), %llu problems\n", (unsigned long long) n, (unsigned long long) valid, (unsigned long long) incompl, (unsigned long long) faulty, (unsigned long long) bad);
        return bad ? 2 : 0;
}
