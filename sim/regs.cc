// regs.cc — register-garbage seam: the ABI leaves vector and mask registers undefined at function
// entry; a deployment's previous code (memcpy, application SIMD) leaves arbitrary values there.
// The plan chooses that garbage so that it is part of the replayable execution.
#include "sim.h"
#include <immintrin.h>

static bool has_avx512 = false, has_avx = false, checked = false;
static void check()
{
        __builtin_cpu_init();
        has_avx512 = __builtin_cpu_supports("avx512f") && __builtin_cpu_supports("avx512bw");
        has_avx = __builtin_cpu_supports("avx2");
        checked = true;
}

__attribute__((target("avx512f,avx512bw,avx512dq"))) static void scramble512(uint64_t seed)
{
        alignas(64) uint64_t pat[8];
        uint64_t x = seed;
        for (int i = 0; i < 8; i++)
                pat[i] = seed == 0 ? 0 : splitmix64(x);
        uint64_t k = seed == 0 ? 0 : splitmix64(x);
        __asm__ volatile("vmovdqa64 (%0), %%zmm0\n\t"
                         "vmovdqa64 %%zmm0, %%zmm1\n\tvmovdqa64 %%zmm0, %%zmm2\n\tvmovdqa64 %%zmm0, %%zmm3\n\t"
                         "vmovdqa64 %%zmm0, %%zmm4\n\tvmovdqa64 %%zmm0, %%zmm5\n\tvmovdqa64 %%zmm0, %%zmm6\n\t"
                         "vmovdqa64 %%zmm0, %%zmm7\n\tvmovdqa64 %%zmm0, %%zmm8\n\tvmovdqa64 %%zmm0, %%zmm9\n\t"
                         "vmovdqa64 %%zmm0, %%zmm10\n\tvmovdqa64 %%zmm0, %%zmm11\n\tvmovdqa64 %%zmm0, %%zmm12\n\t"
                         "vmovdqa64 %%zmm0, %%zmm13\n\tvmovdqa64 %%zmm0, %%zmm14\n\tvmovdqa64 %%zmm0, %%zmm15\n\t"
                         "vmovdqa64 %%zmm0, %%zmm16\n\tvmovdqa64 %%zmm0, %%zmm17\n\tvmovdqa64 %%zmm0, %%zmm18\n\t"
                         "vmovdqa64 %%zmm0, %%zmm19\n\tvmovdqa64 %%zmm0, %%zmm20\n\tvmovdqa64 %%zmm0, %%zmm21\n\t"
                         "vmovdqa64 %%zmm0, %%zmm22\n\tvmovdqa64 %%zmm0, %%zmm23\n\tvmovdqa64 %%zmm0, %%zmm24\n\t"
                         "vmovdqa64 %%zmm0, %%zmm25\n\tvmovdqa64 %%zmm0, %%zmm26\n\tvmovdqa64 %%zmm0, %%zmm27\n\t"
                         "vmovdqa64 %%zmm0, %%zmm28\n\tvmovdqa64 %%zmm0, %%zmm29\n\tvmovdqa64 %%zmm0, %%zmm30\n\t"
                         "vmovdqa64 %%zmm0, %%zmm31\n\t"
                         "kmovq %1, %%k1\n\tkmovq %1, %%k2\n\tkmovq %1, %%k3\n\tkmovq %1, %%k4\n\t"
                         "kmovq %1, %%k5\n\tkmovq %1, %%k6\n\tkmovq %1, %%k7\n\t"
                         :
                         : "r"(pat), "r"(k)
                         : "memory", "xmm0", "xmm1", "xmm2", "xmm3", "xmm4", "xmm5", "xmm6", "xmm7", "xmm8", "xmm9", "xmm10", "xmm11",
                           "xmm12", "xmm13", "xmm14", "xmm15", "xmm16", "xmm17", "xmm18", "xmm19", "xmm20", "xmm21", "xmm22", "xmm23",
                           "xmm24", "xmm25", "xmm26", "xmm27", "xmm28", "xmm29", "xmm30", "xmm31", "k1", "k2", "k3", "k4", "k5", "k6", "k7");
}

__attribute__((target("avx2"))) static void scramble256(uint64_t seed)
{
        alignas(32) uint64_t pat[4];
        uint64_t x = seed;
        for (int i = 0; i < 4; i++)
                pat[i] = seed == 0 ? 0 : splitmix64(x);
        __asm__ volatile("vmovdqa (%0), %%ymm0\n\t"
                         "vmovdqa %%ymm0, %%ymm1\n\tvmovdqa %%ymm0, %%ymm2\n\tvmovdqa %%ymm0, %%ymm3\n\t"
                         "vmovdqa %%ymm0, %%ymm4\n\tvmovdqa %%ymm0, %%ymm5\n\tvmovdqa %%ymm0, %%ymm6\n\t"
                         "vmovdqa %%ymm0, %%ymm7\n\tvmovdqa %%ymm0, %%ymm8\n\tvmovdqa %%ymm0, %%ymm9\n\t"
                         "vmovdqa %%ymm0, %%ymm10\n\tvmovdqa %%ymm0, %%ymm11\n\tvmovdqa %%ymm0, %%ymm12\n\t"
                         "vmovdqa %%ymm0, %%ymm13\n\tvmovdqa %%ymm0, %%ymm14\n\tvmovdqa %%ymm0, %%ymm15\n\t"
                         :
                         : "r"(pat)
                         : "memory", "xmm0", "xmm1", "xmm2", "xmm3", "xmm4", "xmm5", "xmm6", "xmm7", "xmm8", "xmm9", "xmm10", "xmm11",
                           "xmm12", "xmm13", "xmm14", "xmm15");
}

// seed 0 = all zero; otherwise seeded garbage.  Only registers the ABI leaves undefined at call entry.
void scramble_regs(uint64_t seed)
{
        if (!checked)
                check();
        if (has_avx512)
                scramble512(seed);
        else if (has_avx)
                scramble256(seed);
}
