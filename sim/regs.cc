// regs.cc — register-garbage seam: the ABI leaves vector and mask registers undefined at function
// entry; a deployment's previous code (memcpy, application SIMD) leaves arbitrary values there.
// The plan chooses that garbage so that it is part of the replayable execution.
#include "sim.h"
#include <immintrin.h>

static bool has_avx512 = false, has_avx = false, checked = false;
static void check()
{
        __builtin_cpu_init();
        has_avx512 = __builtin_cpu_supports("avx512f") && __builtin_cpu_supports("avx512bw");
        has_avx = __builtin_cpu_supports("avx2");
        checked = true;
}

__attribute__((target("avx512f,avx512bw,avx512dq"))) static void scramble512(uint64_t seed)
{
        alignas(64) uint64_t pat[8];
        uint64_t x = seed;
        for (int i = 0; i < 8; i++)
                pat[i] = seed == 0 ? 0 : splitmix64(x);
        uint64_t k = seed == 0 ? 0 : splitmix64(x);
        __asm__ volatile("vmovdqa64 (%0), %%zmm0\n\t"
                         "vmovdqa64 %%zmm0, %%zmm1\n\tvmovdqa64 %%zmm0, %%zmm2\n\tvmovdqa64 %%zmm0, %%zmm3\n\t"
                         "vmovdqa64 %%zmm0, %%zmm4\n\tvmovdqa64 %%zmm0, %%zmm5\n\tvmovdqa64 %%zmm0, %%zmm6\n\t"
                         "vmovdqa64 %%zmm0, %%zmm7\n\tvmovdqa64 %%zmm0, %%zmm8\n\tvmovdqa64 %%zmm0, %%zmm9\n\t"
                         "vmovdqa64 %%zmm0, %%zmm10\n\tvmovdqa64 %%zmm0, %%zmm11\n\tvmovdqa64 %%zmm0, %%zmm12\n\t"
                         "vmovdqa64 %%zmm0, %%zmm13\n\tvmovdqa64 %%zmm0, %%zmm14\n\tvmovdqa64 %%zmm0, %%zmm15\n\t"
                         "vmovdqa64 %%zmm0, %%zmm16\n\tvmovdqa64 %%zmm0, %%zmm17\n\tvmovdqa64 %%zmm0, %%zmm18\n\t"
                         "vmovdqa64 %%zmm0, %%zmm19\n\tvmovdqa64 %%zmm0, %%zmm20\n\tvmovdqa64 %%zmm0, %%zmm21\n\t"
                         "vmovdqa64 %%zmm0, %%zmm22\n\tvmovdqa64 %%zmm0, %%zmm23\n\tvmovdqa64 %%zmm0, %%zmm24\n\t"
                         "vmovdqa64 %%zmm0, %%zmm25\n\tvmovdqa64 %%zmm0, %%zmm26\n\tvmovdqa64 %%zmm0, %%zmm27\n\t"
                         "vmovdqa64 %%zmm0, %%zmm28\n\tvmovdqa64 %%zmm0, %%zmm29\n\tvmovdqa64 %%zmm0, %%zmm30\n\t"
                         "vmovdqa64 %%zmm0, %%zmm31\n\t"
                         "kmovq %1, %%k1\n\tkmovq %1, %%k2\n\tkmovq %1, %%k3\n\tkmovq %1, %%k4\n\t"
                         "kmovq %1, %%k5\n\tkmovq %1, %%k6\n\tkmovq %1, %%k7\n\t"
                         :
                         : "r"(pat), "r"(k)
                         : "memory", "xmm0", "xmm1", "xmm2", "xmm3", "xmm4", "xmm5", "xmm6", "xmm7", "xmm8", "xmm9", "xmm10", "xmm11",
                           "xmm12", "xmm13", "xmm14", "xmm15", "xmm16", "xmm17", "xmm18", "xmm19", "xmm20", "xmm21", "xmm22", "xmm23",
                           "xmm24", "xmm25", "xmm26", "xmm27", "xmm28", "xmm29", "xmm30", "xmm31", "k1", "k2", "k3", "k4", "k5", "k6", "k7");
}

__attribute__((target("avx2"))) static void scramble256(uint64_t seed)
{
        alignas(32) uint64_t pat[4];
        uint64_t x = seed;
        for (int i = 0; i < 4; i++)
                pat[i] = seed == 0 ? 0 : splitmix64(x);
        __asm__ volatile("vmovdqa (%0), %%ymm0\n\t"
                         "vmovdqa %%ymm0, %%ymm1\n\tvmovdqa %%ymm0, %%ymm2\n\tvmovdqa %%ymm0, %%ymm3\n\t"
                         "vmovdqa %%ymm0, %%ymm4\n\tvmovdqa %%ymm0, %%ymm5\n\tvmovdqa %%ymm0, %%ymm6\n\t"
                         "vmovdqa %%ymm0, %%ymm7\n\tvmovdqa %%ymm0, %%ymm8\n\tvmovdqa %%ymm0, %%ymm9\n\t"
                         "vmovdqa %%ymm0, %%ymm10\n\tvmovdqa %%ymm0, %%ymm11\n\tvmovdqa %%ymm0, %%ymm12\n\t"
                         "vmovdqa %%ymm0, %%ymm13\n\tvmovdqa %%ymm0, %%ymm14\n\tvmovdqa %%ymm0, %%ymm15\n\t"
                         :
                         : "r"(pat)
                         : "memory", "xmm0", "xmm1", "xmm2", "xmm3", "xmm4", "xmm5", "xmm6", "xmm7", "xmm8", "xmm9", "xmm10", "xmm11",
                           "xmm12", "xmm13", "xmm14", "xmm15");
}

// Dead-stack garbage: whatever ran before a library call (the application, another library call on the same thread) leaves its
// locals below the stack pointer, and that is what an uninitialised local of the library starts out as.  Every 8-byte word gets the
// same seeded value, so that what a given slot of a library frame holds does not depend on the absolute stack address (stack ASLR,
// the call depth of a replay) - frames the library aligns to 32 or 64 bytes would otherwise see a different word in a fresh process
// and the run would not replay.  Styles by seed: an arbitrary 64-bit value ("wild": tends to crash); small integers in both 32-bit
// halves, or in one half only (the residue ordinary code leaves: silently changes a result).  Seed 0 leaves zeros (a young thread).
// The fill itself runs inside GUARDED(), immediately before every library call, so that no harness code (whose locals hold heap
// and stack addresses, different in every process) runs in between; scramble_regs() only chooses the word.
__thread uint64_t t_stack_word = 0;
__attribute__((noinline)) void scribble_stack()
{
        uint64_t a[4096]; // 32 KiB: deeper than any frame chain in the library (largest: the hufftable builders, ~20 KiB)
        void *d = a;
        size_t n = sizeof a / sizeof a[0];
        __asm__ volatile("rep stosq" : "+D"(d), "+c"(n) : "a"(t_stack_word) : "memory"); // no vector register is touched
}
static uint64_t stack_word(uint64_t seed)
{
        uint64_t x = seed * 0x9E3779B97F4A7C15ULL + 1;
        x ^= x >> 29;
        x *= 0xBF58476D1CE4E5B9ULL;
        x ^= x >> 32;
        if (seed == 0)
                return 0;
        switch (seed % 4) {
        case 1:
                return ((x >> 61) << 32) | ((x >> 40) & 7);
        case 2:
                return (1 + ((x >> 61) & 3)) << 32;
        case 3:
                return 1 + ((x >> 40) & 0xff);
        }
        return x;
}

// seed 0 = all zero; otherwise seeded garbage.  Only registers the ABI leaves undefined at call entry, and the dead stack.
void scramble_regs(uint64_t seed)
{
        if (!checked)
                check();
        t_stack_word = stack_word(seed);
        if (has_avx512)
                scramble512(seed);
        else if (has_avx)
                scramble256(seed);
}

// ---- caller-ABI seam (sim.h)
__thread IntUpper t_iu;
__thread bool t_iu_used = false;
// open finding F15: the assembly entry points that use the full 64-bit register of an int argument (host dispatch, default build)
bool abi_known_bad(const char *fn, int argidx)
{
        static const struct {
                const char *fn;
                int arg;
        } bad[] = { { "gf_vect_dot_prod", 0 }, { "gf_vect_dot_prod", 1 }, { "gf_vect_mad", 0 }, { "gf_vect_mad", 2 }, { "gf_vect_mul", 0 }, { "xor_gen", 0 },
                    { "xor_gen", 1 },          { "pq_gen", 0 },           { "pq_gen", 1 },      { "xor_check", 0 },   { "pq_check", 0 },    { "crc32_iscsi", 1 }, { "xor_check", 1 }, { "pq_check", 1 } };
        for (auto &b : bad)
                if (!strcmp(b.fn, fn) && b.arg == argidx)
                        return true;
        return false;
}
long iarg(const char *fn, int argidx, int v)
{
        long clean = (long) (uint32_t) v;
        if (!t_iu.dirt || !((t_iu.mask >> argidx) & 1))
                return clean;
        if (!t_iu.all && abi_known_bad(fn, argidx))
                return clean;
        t_iu_used = true;
        return clean | (long) ((uint64_t) t_iu.dirt << 32);
}
