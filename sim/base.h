// base.h — RNG, tiny JSON, history hashing, counters.  No third-party code.
#pragma once
#include <stdint.h>
#include <stdio.h>
#include <stdlib.h>
#include <string.h>
#include <string>
#include <vector>
#include <map>
#include <utility>
#include <algorithm>
#include <type_traits>

// ---------------------------------------------------------------- hashing
static inline uint64_t splitmix64(uint64_t &x)
{
        uint64_t z = (x += 0x9e3779b97f4a7c15ULL);
        z = (z ^ (z >> 30)) * 0xbf58476d1ce4e5b9ULL;
        z = (z ^ (z >> 27)) * 0x94d049bb133111ebULL;
        return z ^ (z >> 31);
}
static inline uint64_t mix64(uint64_t h, uint64_t v)
{
        h ^= v + 0x9e3779b97f4a7c15ULL + (h << 6) + (h >> 2);
        h *= 0xff51afd7ed558ccdULL;
        h ^= h >> 32;
        return h;
}
static inline uint64_t hash_bytes(const void *p, size_t n, uint64_t h = 0xcbf29ce484222325ULL)
{
        const uint8_t *b = (const uint8_t *) p;
        size_t i = 0;
        for (; i + 8 <= n; i += 8) {
                uint64_t v;
                memcpy(&v, b + i, 8);
                h = mix64(h, v);
        }
        uint64_t v = 0;
        memcpy(&v, b + i, n - i);
        return mix64(mix64(h, v), n);
}
static inline uint64_t hash_str(const char *s) { return hash_bytes(s, strlen(s)); }

// ---------------------------------------------------------------- rng
// xoshiro256**, seeded from splitmix64(seed ^ hash(label)).  Sub-streams by label so that
// adding a draw in one concern does not shift another.
struct Rng {
        uint64_t s[4];
        Rng() { seed(0, ""); }
        Rng(uint64_t sd, const char *label) { seed(sd, label); }
        void seed(uint64_t sd, const char *label)
        {
                uint64_t x = sd ^ (hash_str(label) * 0x9e3779b97f4a7c15ULL);
                for (int i = 0; i < 4; i++)
                        s[i] = splitmix64(x);
        }
        static inline uint64_t rotl(uint64_t x, int k) { return (x << k) | (x >> (64 - k)); }
        uint64_t u64()
        {
                uint64_t r = rotl(s[1] * 5, 7) * 9, t = s[1] << 17;
                s[2] ^= s[0];
                s[3] ^= s[1];
                s[1] ^= s[2];
                s[0] ^= s[3];
                s[2] ^= t;
                s[3] = rotl(s[3], 45);
                return r;
        }
        uint32_t u32() { return (uint32_t) (u64() >> 32); }
        // uniform in [0,n) ; n==0 -> 0
        uint64_t below(uint64_t n) { return n ? u64() % n : 0; }
        // uniform in [lo,hi]
        int64_t range(int64_t lo, int64_t hi) { return hi <= lo ? lo : lo + (int64_t) below((uint64_t) (hi - lo) + 1); }
        bool chance(uint32_t num, uint32_t den) { return below(den) < num; }
        template <class T> const T &pick(const std::vector<T> &v) { return v[below(v.size())]; }
        template <class T, size_t N> const T &pick(const T (&v)[N]) { return v[below(N)]; }
        // log-uniform-ish size in [0,max]
        uint64_t logsize(uint64_t max)
        {
                if (max == 0)
                        return 0;
                int bits = 0;
                while ((max >> bits) > 1)
                        bits++;
                int b = (int) below(bits + 2);
                uint64_t hi = b >= 63 ? max : ((1ULL << b) - 1);
                if (hi > max)
                        hi = max;
                return below(hi + 1);
        }
};

// ---------------------------------------------------------------- json
struct Json {
        enum T { NUL, BOOL, INT, STR, ARR, OBJ } t = NUL;
        int64_t i = 0;
        std::string s;
        std::vector<Json> a;
        std::vector<std::pair<std::string, Json>> o;
        Json() {}
        template <class T, typename std::enable_if<std::is_integral<T>::value && !std::is_same<T, bool>::value, int>::type = 0>
        Json(T v) : t(INT), i((int64_t) v)
        {
        }
        Json(bool v) : t(BOOL), i(v) {}
        Json(const char *v) : t(STR), s(v) {}
        Json(const std::string &v) : t(STR), s(v) {}
        static Json arr()
        {
                Json j;
                j.t = ARR;
                return j;
        }
        static Json obj()
        {
                Json j;
                j.t = OBJ;
                return j;
        }
        Json &push(const Json &v)
        {
                t = ARR;
                a.push_back(v);
                return *this;
        }
        Json &set(const std::string &k, const Json &v)
        {
                t = OBJ;
                for (auto &p : o)
                        if (p.first == k) {
                                p.second = v;
                                return *this;
                        }
                o.emplace_back(k, v);
                return *this;
        }
        const Json *find(const char *k) const
        {
                for (auto &p : o)
                        if (p.first == k)
                                return &p.second;
                return nullptr;
        }
        Json *find(const char *k)
        {
                for (auto &p : o)
                        if (p.first == k)
                                return &p.second;
                return nullptr;
        }
        int64_t geti(const char *k, int64_t d = 0) const
        {
                const Json *j = find(k);
                return j && (j->t == INT || j->t == BOOL) ? j->i : d;
        }
        std::string gets(const char *k, const char *d = "") const
        {
                const Json *j = find(k);
                return j && j->t == STR ? j->s : std::string(d);
        }
        const Json &at(const char *k) const
        {
                static Json nul;
                const Json *j = find(k);
                return j ? *j : nul;
        }
        int64_t ai(size_t idx, int64_t d = 0) const { return idx < a.size() && (a[idx].t == INT || a[idx].t == BOOL) ? a[idx].i : d; }
        void dump(std::string &out) const
        {
                char b[32];
                switch (t) {
                case NUL:
                        out += "null";
                        break;
                case BOOL:
                        out += i ? "true" : "false";
                        break;
                case INT:
                        snprintf(b, sizeof b, "%lld", (long long) i);
                        out += b;
                        break;
                case STR:
                        out += '"';
                        for (unsigned char c : s) {
                                if (c == '"' || c == '\\') {
                                        out += '\\';
                                        out += (char) c;
                                } else if (c < 0x20) {
                                        snprintf(b, sizeof b, "\\u%04x", c);
                                        out += b;
                                } else
                                        out += (char) c;
                        }
                        out += '"';
                        break;
                case ARR:
                        out += '[';
                        for (size_t k = 0; k < a.size(); k++) {
                                if (k)
                                        out += ',';
                                a[k].dump(out);
                        }
                        out += ']';
                        break;
                case OBJ:
                        out += '{';
                        for (size_t k = 0; k < o.size(); k++) {
                                if (k)
                                        out += ',';
                                out += '"';
                                out += o[k].first;
                                out += "\":";
                                o[k].second.dump(out);
                        }
                        out += '}';
                        break;
                }
        }
        std::string str() const
        {
                std::string r;
                dump(r);
                return r;
        }
        // ---- parser (accepts what dump() emits plus whitespace and floats truncated to int)
        static bool parse(const std::string &txt, Json &out)
        {
                size_t p = 0;
                bool ok = parse_v(txt, p, out);
                return ok;
        }

      private:
        static void ws(const std::string &t, size_t &p)
        {
                while (p < t.size() && (t[p] == ' ' || t[p] == '\n' || t[p] == '\t' || t[p] == '\r'))
                        p++;
        }
        static bool parse_v(const std::string &t, size_t &p, Json &out)
        {
                ws(t, p);
                if (p >= t.size())
                        return false;
                char c = t[p];
                if (c == '{') {
                        out = Json::obj();
                        p++;
                        ws(t, p);
                        if (p < t.size() && t[p] == '}') {
                                p++;
                                return true;
                        }
                        for (;;) {
                                Json k;
                                ws(t, p);
                                if (!parse_v(t, p, k) || k.t != STR)
                                        return false;
                                ws(t, p);
                                if (p >= t.size() || t[p] != ':')
                                        return false;
                                p++;
                                Json v;
                                if (!parse_v(t, p, v))
                                        return false;
                                out.o.emplace_back(k.s, v);
                                ws(t, p);
                                if (p < t.size() && t[p] == ',') {
                                        p++;
                                        continue;
                                }
                                if (p < t.size() && t[p] == '}') {
                                        p++;
                                        return true;
                                }
                                return false;
                        }
                }
                if (c == '[') {
                        out = Json::arr();
                        p++;
                        ws(t, p);
                        if (p < t.size() && t[p] == ']') {
                                p++;
                                return true;
                        }
                        for (;;) {
                                Json v;
                                if (!parse_v(t, p, v))
                                        return false;
                                out.a.push_back(v);
                                ws(t, p);
                                if (p < t.size() && t[p] == ',') {
                                        p++;
                                        continue;
                                }
                                if (p < t.size() && t[p] == ']') {
                                        p++;
                                        return true;
                                }
                                return false;
                        }
                }
                if (c == '"') {
                        out = Json("");
                        p++;
                        while (p < t.size() && t[p] != '"') {
                                if (t[p] == '\\' && p + 1 < t.size()) {
                                        p++;
                                        if (t[p] == 'u' && p + 4 < t.size()) {
                                                out.s += (char) strtol(t.substr(p + 1, 4).c_str(), 0, 16);
                                                p += 5;
                                                continue;
                                        }
                                        if (t[p] == 'n')
                                                out.s += '\n';
                                        else if (t[p] == 't')
                                                out.s += '\t';
                                        else
                                                out.s += t[p];
                                        p++;
                                        continue;
                                }
                                out.s += t[p++];
                        }
                        if (p >= t.size())
                                return false;
                        p++;
                        return true;
                }
                if (!strncmp(t.c_str() + p, "true", 4)) {
                        out = Json(true);
                        p += 4;
                        return true;
                }
                if (!strncmp(t.c_str() + p, "false", 5)) {
                        out = Json(false);
                        p += 5;
                        return true;
                }
                if (!strncmp(t.c_str() + p, "null", 4)) {
                        out = Json();
                        p += 4;
                        return true;
                }
                if (c == '-' || (c >= '0' && c <= '9')) {
                        char *e;
                        long long v = strtoll(t.c_str() + p, &e, 10);
                        size_t np = e - t.c_str();
                        if (np < t.size() && (t[np] == '.' || t[np] == 'e' || t[np] == 'E')) {
                                double d = strtod(t.c_str() + p, &e);
                                v = (long long) d;
                                np = e - t.c_str();
                        }
                        out = Json((int64_t) v);
                        p = np;
                        return true;
                }
                return false;
        }
};

// ---------------------------------------------------------------- counters
// Named counters (fault kinds fired, reach probes, stats).  Registered on first use; cheap ++.
struct Counters {
        std::map<std::string, uint64_t> m;
        uint64_t &operator[](const char *k) { return m[k]; }
        void add(const Counters &o)
        {
                for (auto &p : o.m)
                        m[p.first] += p.second;
        }
};
extern Counters g_cnt;
struct Ctr {
        uint64_t *p;
        explicit Ctr(const char *name) : p(&g_cnt.m[name]) {}
        void operator++(int) { ++*p; }
        void operator+=(uint64_t v) { *p += v; }
};
#define COUNT(name)                                                                                \
        do {                                                                                       \
                static Ctr _c(name);                                                               \
                _c++;                                                                              \
        } while (0)
#define COUNTN(name, n)                                                                            \
        do {                                                                                       \
                static Ctr _c(name);                                                               \
                _c += (n);                                                                         \
        } while (0)

// ---------------------------------------------------------------- history
// A run's history: hashed always; kept as text only when g_trace is set (replay / debugging).
// Records contain offsets, sizes, enum values and content hashes — never raw pointers.
extern int g_trace; // 0 none, 1 keep log lines, 2 print to stderr as well
struct Hist {
        uint64_t h = 0x1234567;
        uint64_t sig = 0x42;   // run signature (coarser than h: kinds, state transitions, size classes)
        uint64_t events = 0;   // simulated time: API calls + resolver steps
        uint32_t unusual = 0;  // number of fault/unusual events fired in this run
        uint32_t calls = 0;
        std::vector<std::string> log;
        uint64_t res = 0x77; // results only (final output, verdicts), without the pacing of individual calls
        void rec(const char *tag, std::initializer_list<int64_t> v)
        {
                h = mix64(h, hash_str(tag));
                for (int64_t x : v)
                        h = mix64(h, (uint64_t) x);
                if (!strcmp(tag, "end") || !strcmp(tag, "verdict") || !strcmp(tag, "oneshot") || !strcmp(tag, "end1") || !strcmp(tag, "stateless")) {
                        res = mix64(res, hash_str(tag));
                        for (int64_t x : v)
                                res = mix64(res, (uint64_t) x);
                }
                events++;
                if (g_trace) {
                        std::string l = tag;
                        char b[32];
                        for (int64_t x : v) {
                                snprintf(b, sizeof b, " %lld", (long long) x);
                                l += b;
                        }
                        if (g_trace > 1)
                                fprintf(stderr, "  %6llu %s\n", (unsigned long long) events, l.c_str());
                        log.push_back(std::move(l));
                }
        }
        void sigmix(uint64_t v) { sig = mix64(sig, v); }
};
static inline int size_class(uint64_t n)
{ // 0,1,2..8,9..16, then log2 buckets
        if (n <= 8)
                return (int) n;
        int b = 0;
        while (n >> b)
                b++;
        return 8 + b;
}

// ---------------------------------------------------------------- run result
struct RunResult {
        std::string oracle; // empty = no violation; e.g. "C07.roundtrip"
        std::string detail;
        std::string alt;    // a second property this violation also belongs to (e.g. a header split across calls: C07 and C19)
        uint64_t hash = 0, sig = 0, events = 0;
        uint32_t unusual = 0, calls = 0;
        bool violated() const { return !oracle.empty(); }
        void fail(const std::string &o, const std::string &d)
        {
                if (oracle.empty()) {
                        oracle = o;
                        detail = d;
                }
        }
};
static inline std::string property_of(const std::string &oracle)
{
        size_t d = oracle.find('.');
        return d == std::string::npos ? oracle : oracle.substr(0, d);
}
std::string strf(const char *fmt, ...) __attribute__((format(printf, 1, 2)));
