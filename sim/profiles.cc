#include "sim.h"
extern const Profile *const g_profiles[];
extern const int g_nprofiles;
const Profile *const g_profiles[] = { &prof_deflate, &prof_oneshot, &prof_inflate, &prof_hdr, &prof_twin, &prof_reuse, &prof_ec, &prof_kern, &prof_cpu, &prof_sched };
const int g_nprofiles = sizeof(g_profiles) / sizeof(g_profiles[0]);
