// sim.h — profile registry and shared executor helpers
#pragma once
#include "base.h"
#include "mem.h"
#include "ref.h"
#include "gen.h"

struct Profile {
        const char *name;
        // generate a plan for this profile; `focus` is the property whose check is running (biases the swarm)
        Json (*gen)(Rng &r, const std::string &focus, int tier);
        // execute a plan: pure function of (plan, code under test)
        void (*exec)(const Json &plan, RunResult &rr, Hist &h);
};
const Profile *find_profile(const std::string &name);
extern const Profile prof_deflate, prof_oneshot, prof_inflate, prof_hdr, prof_ec, prof_kern, prof_cpu, prof_sched, prof_twin, prof_reuse;

// steer-away switches for open known findings (set from known_findings.json by main; never from a replay)
extern std::vector<std::string> g_avoid;
static inline bool avoiding(const Json &plan, const char *id)
{
        const Json &a = plan.at("avoid");
        for (auto &x : a.a)
                if (x.s == id)
                        return true;
        return false;
}

// Caller-ABI seam.  The SysV x86-64 ABI leaves the upper 32 bits of a register that carries an `int` argument undefined; a C caller
// that narrows a 64-bit value (`f((int) x)` compiles to a plain jump) leaves them non-zero.  iarg() builds the register value for one
// int argument of the call being made: clean, or with the plan's garbage above bit 31.  `all` = also for the (function, argument)
// pairs of open finding F15; otherwise those are passed clean.
struct IntUpper {
        uint32_t dirt = 0, mask = 0;
        bool all = false;
};
extern __thread IntUpper t_iu;
extern __thread bool t_iu_used; // the call being made carries at least one dirty argument
long iarg(const char *fn, int argidx, int v);
bool abi_known_bad(const char *fn, int argidx);
typedef long (*abi_fn7)(long, long, long, long, long, long, long);
#define ABI_CALL(fn, a0, a1, a2, a3, a4, a5, a6) ((abi_fn7) (void *) (fn))((long) (a0), (long) (a1), (long) (a2), (long) (a3), (long) (a4), (long) (a5), (long) (a6))

// record a memory fault as a violation of C05 (or C15 for library data)
void report_fault(RunResult &rr, Hist &h, const FaultInfo &fi, const char *where);
Slot *make_custom_hufftables(const Json &hf, const std::vector<uint8_t> &data, uint64_t fill, GuardCtx &gc, RunResult &rr, Hist &h, bool &faulted);

// common: fault description
std::string fault_str(const FaultInfo &fi);

// optional second opinion (zlib), used only to cross-check the reference model: returns true if zlib agrees
// with (ref_status, ref_out) on (wrap,in); a disagreement is an infrastructure fault.
bool zlib_agrees(int wrap, const uint8_t *in, size_t len, int ref_status, const std::vector<uint8_t> &ref_out, std::string &why,
                 const uint8_t *dict = nullptr, size_t dict_len = 0);
// foreign encoder
std::vector<uint8_t> zlib_compress(const std::vector<uint8_t> &data, int wrap, int level, int strategy, int wbits, int memlevel,
                                   const uint8_t *dict = nullptr, size_t dict_len = 0);
void maybe_swarm_cpu(Rng &r, Json &plan, uint32_t num, uint32_t den); // cpu.cc: attach a simulated CPU to a plan
void scramble_regs(uint64_t seed); // register-garbage seam (regs.cc)
extern uint64_t g_infra_faults;
extern std::string g_infra_msg;
