// sim.h — profile registry and shared executor helpers
#pragma once
#include "base.h"
#include "mem.h"
#include "ref.h"
#include "gen.h"

struct Profile {
        const char *name;
        // generate a plan for this profile; `focus` is the property whose check is running (biases the swarm)
        Json (*gen)(Rng &r, const std::string &focus, int tier);
        // execute a plan: pure function of (plan, code under test)
        void (*exec)(const Json &plan, RunResult &rr, Hist &h);
};
const Profile *find_profile(const std::string &name);
extern const Profile prof_deflate, prof_oneshot, prof_inflate, prof_hdr, prof_ec, prof_kern, prof_cpu, prof_sched, prof_twin, prof_reuse;

// steer-away switches for open known findings (set from known_findings.json by main; never from a replay)
extern std::vector<std::string> g_avoid;
static inline bool avoiding(const Json &plan, const char *id)
{
        const Json &a = plan.at("avoid");
        for (auto &x : a.a)
                if (x.s == id)
                        return true;
        return false;
}

// record a memory fault as a violation of C05 (or C15 for library data)
void report_fault(RunResult &rr, Hist &h, const FaultInfo &fi, const char *where);
Slot *make_custom_hufftables(const Json &hf, const std::vector<uint8_t> &data, uint64_t fill, GuardCtx &gc, RunResult &rr, Hist &h, bool &faulted);

// common: fault description
std::string fault_str(const FaultInfo &fi);

// optional second opinion (zlib), used only to cross-check the reference model: returns true if zlib agrees
// with (ref_status, ref_out) on (wrap,in); a disagreement is an infrastructure fault.
bool zlib_agrees(int wrap, const uint8_t *in, size_t len, int ref_status, const std::vector<uint8_t> &ref_out, std::string &why,
                 const uint8_t *dict = nullptr, size_t dict_len = 0);
// foreign encoder
std::vector<uint8_t> zlib_compress(const std::vector<uint8_t> &data, int wrap, int level, int strategy, int wbits, int memlevel,
                                   const uint8_t *dict = nullptr, size_t dict_len = 0);
void maybe_swarm_cpu(Rng &r, Json &plan, uint32_t num, uint32_t den); // cpu.cc: attach a simulated CPU to a plan
void scramble_regs(uint64_t seed); // register-garbage seam (regs.cc)
extern uint64_t g_infra_faults;
extern std::string g_infra_msg;
