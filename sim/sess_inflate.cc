// sess_inflate.cc — streaming decompression sessions over the I/O, memory and transport-fault seams.
// Serves C06 (arbitrary bytes), C07 (decompression side: streamed == one-shot), C11 (verifier), C05.
#include "sim.h"
#include "defgen.h"
#include "igzip_lib.h"

uint32_t level_buf_size_for(int level, int cls, uint32_t extra);

namespace
{
enum { FMT_RAW = 0, FMT_GZIP = 1, FMT_ZLIB = 2 };

struct InflateSession {
        const Json &plan;
        RunResult &rr;
        Hist &h;
        GuardCtx gc;
        std::string focus;
        // stream under test
        std::vector<uint8_t> bytes, plain, dict;
        int fmt = 0, mode = 0, refwrap = RW_RAW;
        size_t hdr_len = 0, trl_len = 0;
        bool pristine = true;     // no damage, no grammar fault: the stream is valid by construction
        int expect_class = 0;     // documented error class for a single named fault (0 = none)
        uint64_t fault_end_byte = 0;
        int gfault = 0;
        bool need_dict_zlib = false;
        // memory seam
        int place = 0;
        uint64_t fill = 0, regs = 0;
        bool rel = true, dangling = false;

        InflateSession(const Json &p, RunResult &r, Hist &hh) : plan(p), rr(r), h(hh) {}

        // ------------------------------------------------------------ building the stream
        bool make_body(std::vector<uint8_t> &body)
        {
                const Json &src = plan.at("src");
                int kind = (int) ((uint64_t) src.geti("kind") % 3);
                const Json &dj = src.at("dict");
                uint32_t dn = (uint32_t) ((uint64_t) dj.geti("n") % 70001); // only the last 32 KiB of a longer dictionary matter
                if (dn && kind != 2) {
                        dict.resize(dn);
                        Rng dr((uint64_t) dj.geti("s"), "idict");
                        for (auto &b : dict)
                                b = (uint8_t) ('a' + dr.below(6));
                }
                if (kind == 2) {
                        Json g = src.at("gram");
                        if (fmt == FMT_GZIP)
                                g.set("dict", 0); // gzip has no preset dictionary
                        DefGenOut o = gen_deflate_stream(g);
                        body = o.bytes;
                        plain = o.plain;
                        uint64_t gd = (uint64_t) g.geti("dict") % 32769;
                        dict.resize(gd);
                        for (uint64_t j = 0; j < gd; j++)
                                dict[j] = (uint8_t) (0x5d ^ (uint8_t) j);
                        if (o.fault) {
                                pristine = false;
                                gfault = o.fault;
                                fault_end_byte = (o.fault_end_bit + 7) / 8;
                                switch (o.fault) {
                                case GF_UNASSIGNED:
                                case GF_UNASSIGNED_DIST:
                                case GF_LEN_SYM_286:
                                case GF_DIST_SYM_30: expect_class = ISAL_INVALID_SYMBOL; break;
                                case GF_DIST_TOO_FAR: expect_class = ISAL_INVALID_LOOKBACK; break;
                                default: expect_class = ISAL_INVALID_BLOCK;
                                }
                                COUNT("xport.grammar_fault");
                        }
                        if (o.has_incomplete)
                                COUNT("probe.src_incomplete_code");
                        if (o.max_code_len > 12)
                                COUNT("probe.src_long_codes");
                        if (o.max_dist >= 32766)
                                COUNT("probe.src_dist_32k");
                        return true;
                }
                plain = make_data(src.at("data"));
                if (fmt == FMT_GZIP)
                        dict.clear();
                if (kind == 1) {
                        const Json &z = src.at("zl");
                        int lv = (int) ((uint64_t) z.geti("level") % 10), strat = (int) ((uint64_t) z.geti("strategy") % 5);
                        int wb = 9 + (int) ((uint64_t) z.geti("wbits") % 7), ml = 1 + (int) ((uint64_t) z.geti("memlevel") % 9);
                        body = zlib_compress(plain, RW_RAW, lv, strat, wb, ml, dict.empty() ? nullptr : dict.data(), dict.size());
                        if (body.empty() && !plain.empty()) {
                                g_infra_faults++;
                                g_infra_msg = "zlib_compress failed";
                                return false;
                        }
                        return true;
                }
                // kind 0: ISA-L's own compressor (streaming, a few chunks, optional flushes), raw deflate
                int level = (int) ((uint64_t) src.geti("level") % 4);
                Slot *ss = g_arena.alloc(sizeof(struct isal_zstream), PLACE_END, "src_zstream", 1, 16);
                uint32_t lbs = level_buf_size_for(level, 3, 0);
                Slot *sl = level ? g_arena.alloc(lbs, PLACE_END, "src_level_buf", 2, 16) : nullptr;
                size_t cap = plain.size() + plain.size() / 4 + 4096;
                Slot *si = g_arena.alloc(plain.size(), PLACE_END, "src_in", 0, 1), *so = g_arena.alloc(cap, PLACE_END, "src_out", 3, 1);
                Slot *sd = dict.empty() ? nullptr : g_arena.alloc(dict.size(), PLACE_END, "src_dict", 0, 1);
                if (!ss || !si || !so || (level && !sl))
                        return false;
                memcpy(si->data, plain.data(), plain.size());
                struct isal_zstream *st = (struct isal_zstream *) ss->data;
                int bad = 0;
                if (GUARDED(gc, {
                            isal_deflate_init(st);
                            st->level = level;
                            st->level_buf = sl ? sl->data : nullptr;
                            st->level_buf_size = sl ? lbs : 0;
                            st->hist_bits = (uint16_t) src.geti("hb");
                            st->gzip_flag = 0;
                            if (sd) {
                                    memcpy(sd->data, dict.data(), dict.size());
                                    bad |= isal_deflate_set_dict(st, sd->data, (uint32_t) dict.size());
                            }
                            st->next_in = si->data;
                            st->avail_in = 0;
                            st->next_out = so->data;
                            st->avail_out = (uint32_t) cap;
                            size_t pos = 0;
                            const Json &ch = src.at("chunks");
                            for (size_t k = 0; k <= ch.a.size() && st->internal_state.state != ZSTATE_END; k++) {
                                    bool last = k == ch.a.size();
                                    size_t n = last ? plain.size() - pos : std::min<size_t>((uint64_t) ch.a[k].ai(0) % (1u << 22), plain.size() - pos);
                                    st->avail_in += (uint32_t) n; // next_in continues in the same buffer
                                    pos += n;
                                    st->end_of_stream = last;
                                    st->flush = last ? NO_FLUSH : (uint16_t) ((uint64_t) ch.a[k].ai(1) % 3);
                                    bad |= isal_deflate(st);
                            }
                            if (st->internal_state.state != ZSTATE_END)
                                    bad |= 1000;
                    })) {
                        report_fault(rr, h, gc.fi, "source compression (isal_deflate)");
                        return false;
                }
                if (bad) {
                        rr.fail("C07.source_compress", strf("ISA-L source compression failed (%d)", bad));
                        return false;
                }
                body.assign(so->data, so->data + st->total_out);
                g_arena.release(ss);
                g_arena.release(sl);
                g_arena.release(si);
                g_arena.release(so);
                g_arena.release(sd);
                return true;
        }

        bool build()
        {
                focus = plan.gets("focus");
                fmt = (int) ((uint64_t) plan.geti("fmt") % 3);
                std::vector<uint8_t> body;
                if (!make_body(body))
                        return false;
                // ---- wrapper (reference producers)
                std::vector<uint8_t> hdr, trl;
                if (fmt == FMT_GZIP) {
                        const Json &g = plan.at("gz");
                        GzFields f;
                        uint64_t fl = (uint64_t) g.geti("flags");
                        f.text = fl & 1;
                        f.hcrc = fl & 2;
                        f.has_extra = fl & 4;
                        f.has_name = fl & 8;
                        f.has_comment = fl & 16;
                        f.mtime = (uint32_t) g.geti("mtime");
                        f.xfl = (uint8_t) g.geti("xfl");
                        f.os = (uint8_t) g.geti("os");
                        Rng gr((uint64_t) g.geti("s"), "gzfields");
                        if (f.has_extra) {
                                f.extra.resize((uint64_t) g.geti("xlen") % 70);
                                for (auto &b : f.extra)
                                        b = (uint8_t) gr.u64();
                        }
                        if (f.has_name)
                                for (uint64_t k = (uint64_t) g.geti("nlen") % 40; k > 0; k--)
                                        f.name += (char) ('A' + gr.below(26));
                        if (f.has_comment)
                                for (uint64_t k = (uint64_t) g.geti("clen") % 40; k > 0; k--)
                                        f.comment += (char) ('a' + gr.below(26));
                        hdr = ref_gzip_header(f);
                        uint32_t c = ref_crc32(0, plain.data(), plain.size()), n = (uint32_t) plain.size();
                        for (int i = 0; i < 4; i++)
                                trl.push_back((uint8_t) (c >> (8 * i)));
                        for (int i = 0; i < 4; i++)
                                trl.push_back((uint8_t) (n >> (8 * i)));
                        if (fl & 30)
                                COUNT("probe.gzip_optional_fields");
                } else if (fmt == FMT_ZLIB) {
                        uint32_t did = ref_adler32(1, dict.data(), dict.size());
                        hdr = ref_zlib_header(7, (unsigned) plan.geti("zlevel") & 3, !dict.empty(), did);
                        uint32_t a = ref_adler32(1, plain.data(), plain.size());
                        for (int i = 3; i >= 0; i--)
                                trl.push_back((uint8_t) (a >> (8 * i)));
                        need_dict_zlib = !dict.empty();
                }
                // ---- which bytes the decoder is handed, and in which mode
                int msel = (int) ((uint64_t) plan.geti("mode") % 4);
                bool with_hdr = true;
                if (fmt == FMT_RAW) {
                        mode = ISAL_DEFLATE;
                        refwrap = RW_RAW;
                        if (msel == 1 && !plain.empty()) { // raw data followed by unrelated trailing bytes
                                trl.assign(5, 0xa5);
                        }
                } else if (fmt == FMT_GZIP) {
                        static const int ms[4] = { ISAL_GZIP, ISAL_GZIP, ISAL_GZIP_NO_HDR, ISAL_GZIP_NO_HDR_VER };
                        static const int rw[4] = { RW_GZIP, RW_GZIP, RW_RAW, RW_GZIP_TRL };
                        mode = ms[msel];
                        refwrap = rw[msel];
                        with_hdr = mode == ISAL_GZIP;
                } else {
                        static const int ms[4] = { ISAL_ZLIB, ISAL_ZLIB, ISAL_ZLIB_NO_HDR, ISAL_ZLIB_NO_HDR_VER };
                        static const int rw[4] = { RW_ZLIB, RW_ZLIB, RW_RAW, RW_ZLIB_TRL };
                        mode = ms[msel];
                        refwrap = rw[msel];
                        with_hdr = mode == ISAL_ZLIB;
                        if (!with_hdr)
                                need_dict_zlib = false;
                }
                bytes.clear();
                if (with_hdr)
                        bytes = hdr;
                hdr_len = bytes.size();
                bytes.insert(bytes.end(), body.begin(), body.end());
                size_t body_end = bytes.size();
                bytes.insert(bytes.end(), trl.begin(), trl.end());
                trl_len = trl.size();
                if (gfault)
                        fault_end_byte += hdr_len;
                // ---- transport damage
                const Json &dm = plan.at("damage");
                for (auto &d : dm.a) {
                        int kind = (int) ((uint64_t) d.ai(0) % 7);
                        if (kind == 0 || bytes.empty())
                                continue;
                        int region = (int) ((uint64_t) d.ai(1) % 6);
                        uint64_t off = (uint64_t) d.ai(2), val = (uint64_t) d.ai(3);
                        size_t len = bytes.size(), pos;
                        switch (region) {
                        case 1: pos = len - 1 - off % len; break;
                        case 2: pos = (size_t) (((off & 0xffff) * len) >> 16); break;
                        case 3: pos = trl_len && (mode != ISAL_DEFLATE) ? body_end + off % trl_len : off % len; break;
                        case 4: pos = hdr_len ? off % hdr_len : off % len; break;
                        case 5: pos = hdr_len + off % 16; break; // block header / start of the code-length section
                        default: pos = off % len;
                        }
                        if (pos >= len)
                                pos = len - 1;
                        bool single = dm.a.size() == 1 && !gfault;
                        switch (kind) {
                        case 1:
                                bytes.resize(pos);
                                COUNT("xport.truncate");
                                pristine = false;
                                break;
                        case 2:
                                bytes[pos] ^= (uint8_t) (1u << (val & 7));
                                COUNT("xport.bitflip");
                                pristine = false;
                                if (single && region == 3 && pos >= body_end && trl_len && (mode == ISAL_GZIP || mode == ISAL_ZLIB || mode == ISAL_GZIP_NO_HDR_VER || mode == ISAL_ZLIB_NO_HDR_VER)) {
                                        expect_class = ISAL_INCORRECT_CHECKSUM;
                                        fault_end_byte = len;
                                        COUNT("xport.trailer_corrupt");
                                }
                                break;
                        case 3: {
                                uint8_t nv = (uint8_t) val;
                                if (nv == bytes[pos])
                                        nv ^= 0x40;
                                bytes[pos] = nv;
                                COUNT("xport.subst");
                                pristine = false;
                                break;
                        }
                        case 4: {
                                Rng gr(val, "garbage");
                                bytes.resize(off % 3000);
                                for (auto &b : bytes)
                                        b = (uint8_t) gr.u64();
                                COUNT("xport.garbage");
                                pristine = false;
                                hdr_len = 0;
                                break;
                        }
                        case 6: { // a zlib trailer in which one 16-bit half of the Adler-32 is the right residue in a form no Adler-32 can take
                                  // (value + 65521): possible only for halves below 15
                                if (fmt != FMT_ZLIB || trl_len != 4 || mode == ISAL_DEFLATE)
                                        break;
                                bool done = false;
                                for (int half = 0; half < 2; half++) {
                                        if (!((val >> half) & 1))
                                                continue;
                                        size_t at = body_end + (half ? 0 : 2); // big endian: B first, then A
                                        uint32_t v = (uint32_t) bytes[at] << 8 | bytes[at + 1];
                                        if (v > 14)
                                                continue;
                                        v += 65521;
                                        bytes[at] = (uint8_t) (v >> 8);
                                        bytes[at + 1] = (uint8_t) v;
                                        done = true;
                                }
                                if (done) {
                                        pristine = false;
                                        COUNT("xport.adler_noncanonical");
                                        if (single && (mode == ISAL_ZLIB || mode == ISAL_ZLIB_NO_HDR_VER)) {
                                                expect_class = ISAL_INCORRECT_CHECKSUM;
                                                fault_end_byte = len;
                                        }
                                }
                                break;
                        }
                        case 5: { // named wrapper faults
                                if (!with_hdr || fmt == FMT_RAW)
                                        break;
                                int which = (int) (val % 3);
                                pristine = false;
                                if (fmt == FMT_GZIP) {
                                        if (which == 0) {
                                                bytes[val & 8 ? 1 : 0] ^= (uint8_t) (1 + (off & 0x7f));
                                                if (single) {
                                                        expect_class = ISAL_INVALID_WRAPPER;
                                                        fault_end_byte = 10;
                                                }
                                        } else {
                                                bytes[2] = (uint8_t) (off % 8 == 0 ? 9 : off % 8);
                                                if (single) {
                                                        expect_class = ISAL_UNSUPPORTED_METHOD;
                                                        fault_end_byte = 10;
                                                }
                                        }
                                } else {
                                        if (which == 0) { // CM != 8, FCHECK kept valid
                                                unsigned cm = (unsigned) (off % 16);
                                                if (cm == 8)
                                                        cm = 7;
                                                unsigned cmf = (bytes[0] & 0xf0) | cm, flg = bytes[1] & 0xe0;
                                                unsigned rem = (cmf * 256 + flg) % 31;
                                                if (rem)
                                                        flg += 31 - rem;
                                                bytes[0] = (uint8_t) cmf;
                                                bytes[1] = (uint8_t) flg;
                                                if (single) {
                                                        expect_class = ISAL_UNSUPPORTED_METHOD;
                                                        fault_end_byte = 2;
                                                }
                                        } else if (which == 1) { // FCHECK wrong
                                                bytes[1] ^= (uint8_t) (1 + off % 31) & 0x1f ? (uint8_t) ((1 + off % 31) & 0x1f) : 1;
                                                if (((unsigned) bytes[0] * 256 + bytes[1]) % 31 == 0)
                                                        bytes[1] ^= 1;
                                                if (single) {
                                                        expect_class = ISAL_INCORRECT_CHECKSUM;
                                                        fault_end_byte = 2;
                                                }
                                        } else { // FDICT announced, no dictionary supplied
                                                if (!(bytes[1] & 0x20) && bytes.size() >= 2) {
                                                        unsigned cmf = bytes[0], flg = (bytes[1] & 0xc0) | 0x20;
                                                        unsigned rem = (cmf * 256 + flg) % 31;
                                                        if (rem)
                                                                flg += 31 - rem;
                                                        bytes[1] = (uint8_t) flg;
                                                        // half the time a well-formed DICTID is inserted as well (boundary values included), so that
                                                        // what follows is exactly the stream of an encoder that used a dictionary nobody supplies
                                                        if (val & 4) {
                                                                static const uint32_t ids[] = { 0, 1, 0xffffffffu, 0x00010000u, 0x80000000u };
                                                                uint32_t id = (val & 8) ? ids[(val >> 4) % 5] : (uint32_t) (off * 2654435761u);
                                                                uint8_t idb[4] = { (uint8_t) (id >> 24), (uint8_t) (id >> 16), (uint8_t) (id >> 8), (uint8_t) id };
                                                                bytes.insert(bytes.begin() + 2, idb, idb + 4);
                                                                hdr_len += 4;
                                                                COUNT("xport.fdict_with_unknown_dictid");
                                                        }
                                                }
                                        }
                                }
                                COUNT("xport.hdr_field_corrupt");
                                break;
                        }
                        }
                }
                return true;
        }

        // ------------------------------------------------------------ one-shot reference run (ISA-L itself)
        struct OneShotResult {
                int ret = -99;
                int block_state = -1;
                std::vector<uint8_t> out;
                uint32_t total_out = 0, crc = 0;
                bool ran = false;
        } os1;

        bool run_oneshot()
        {
                if (!dict.empty() || need_dict_zlib)
                        return true; // documented: dictionaries are not supported by the stateless call
                size_t cap = std::max<size_t>(plain.size(), 4096) + 70000;
                uint64_t osz = (uint64_t) plan.geti("os_out");
                if (osz) { // a sink smaller than the data: documented answer ISAL_OUT_OVERFLOW, never a write past avail_out
                        cap = (size_t) (osz % (plain.size() + 2));
                        COUNT("io.oneshot_small_sink");
                }
                Slot *ss = g_arena.alloc(sizeof(struct inflate_state), PLACE_END, "os_state", fill + 11, 8);
                Slot *si = g_arena.alloc(bytes.size(), place, "os_in", 0, 1), *so = g_arena.alloc(cap, PLACE_END, "os_out", fill + 12, 1);
                if (!ss || !si || !so)
                        return false;
                memcpy(si->data, bytes.data(), bytes.size());
                struct inflate_state *s = (struct inflate_state *) ss->data;
                int ret = 0;
                scramble_regs(regs ? regs + 999 : 0);
                if (GUARDED(gc, {
                            isal_inflate_init(s);
                            s->crc_flag = mode;
                            s->hist_bits = ihb();
                            s->next_in = si->data;
                            s->avail_in = (uint32_t) bytes.size();
                            s->next_out = so->data;
                            s->avail_out = (uint32_t) cap;
                            ret = isal_inflate_stateless(s);
                    })) {
                        report_fault(rr, h, gc.fi, strf("isal_inflate_stateless (%zu bytes, mode %d)", bytes.size(), mode).c_str());
                        return false;
                }
                h.calls++;
                if (!g_arena.canary_ok(so) || !g_arena.canary_ok(ss) || !g_arena.canary_ok(si)) {
                        rr.fail("C05.canary", "isal_inflate_stateless changed bytes outside its declared buffers");
                        return false;
                }
                uint32_t produced = (uint32_t) cap - s->avail_out;
                if (ret >= 0 && (s->avail_out > cap || s->next_out != so->data + produced)) {
                        rr.fail("C06.accounting", "isal_inflate_stateless: next_out/avail_out inconsistent");
                        return false;
                }
                if (!oneshot_prefix_ok(ret, so->data, produced, cap))
                        return false;
                os1.ran = osz == 0; // with a deliberately small sink only the safety clauses and the delivered prefix are judged
                os1.ret = ret;
                os1.block_state = s->block_state;
                os1.total_out = s->total_out;
                os1.crc = s->crc;
                if (ret < 0)
                        produced = 0; // after an error return neither the counters nor the buffer contents are promised
                os1.out.assign(so->data, so->data + produced);
                h.rec("oneshot", { ret, s->block_state, produced, (int64_t) hash_bytes(so->data, produced) });
                if (!(ret == 0 || ret == ISAL_END_INPUT || ret == ISAL_OUT_OVERFLOW || ret == ISAL_NEED_DICT || (ret <= -1 && ret >= -6)))
                        rr.fail("C06.ret_undocumented", strf("isal_inflate_stateless returned %d", ret));
                g_arena.release(ss);
                g_arena.release(si);
                g_arena.release(so);
                return !rr.violated();
        }

        // one-shot decoder against EVERY sink size 0..n+2 (small streams only): the guard page sits directly after the sink
        bool sweep_oneshot()
        {
                if (!plan.geti("os_sweep") || plain.size() > 1500 || bytes.size() > 4000 || !dict.empty() || need_dict_zlib)
                        return true;
                COUNT("io.oneshot_sink_sweep");
                Slot *si = g_arena.alloc(bytes.size(), place, "os_in", 0, 1);
                if (!si)
                        return false;
                memcpy(si->data, bytes.data(), bytes.size());
                size_t step = plain.size() > 600 ? 1 + plain.size() / 600 : 1;
                for (size_t cap = 0; cap <= plain.size() + 2; cap += (cap + 300 > plain.size() ? 1 : step)) {
                        Slot *ss = g_arena.alloc(sizeof(struct inflate_state), PLACE_END, "os_state", fill + cap, 8);
                        Slot *so = g_arena.alloc(cap, PLACE_END, "os_out", fill + 13 + cap, 1);
                        if (!ss || !so)
                                return false;
                        struct inflate_state *s = (struct inflate_state *) ss->data;
                        int ret = 0;
                        h.calls++;
                        if (GUARDED(gc, {
                                    isal_inflate_init(s);
                                    s->crc_flag = mode;
                                    s->next_in = si->data;
                                    s->avail_in = (uint32_t) bytes.size();
                                    s->next_out = so->data;
                                    s->avail_out = (uint32_t) cap;
                                    ret = isal_inflate_stateless(s);
                            })) {
                                report_fault(rr, h, gc.fi, strf("isal_inflate_stateless (%zu input bytes, avail_out %zu of %zu needed, mode %d)", bytes.size(), cap, plain.size(), mode).c_str());
                                return false;
                        }
                        if (!g_arena.canary_ok(so) || !g_arena.canary_ok(ss) || !g_arena.canary_ok(si)) {
                                rr.fail("C05.canary", strf("isal_inflate_stateless with avail_out %zu changed bytes outside its declared buffers", cap));
                                return false;
                        }
                        if (!(ret == 0 || ret == ISAL_END_INPUT || ret == ISAL_OUT_OVERFLOW || ret == ISAL_NEED_DICT || (ret <= -1 && ret >= -6))) {
                                rr.fail("C06.ret_undocumented", strf("isal_inflate_stateless returned %d", ret));
                                return false;
                        }
                        if (!oneshot_prefix_ok(ret, so->data, ret >= 0 ? cap - s->avail_out : 0, cap))
                                return false;
                        if (pristine && ret == 0 && s->block_state == ISAL_BLOCK_FINISH && (cap < plain.size() || memcmp(so->data, plain.data(), plain.size()))) {
                                rr.fail("C06.false_success", strf("one-shot decoder reports completion with avail_out %zu although the stream decodes to %zu bytes", cap, plain.size()));
                                return false;
                        }
                        h.sigmix(0x5eeb ^ (uint64_t) (ret & 0xff) << 8);
                        g_arena.release(ss);
                        g_arena.release(so);
                }
                h.unusual++;
                g_arena.release(si);
                return true;
        }

        // ------------------------------------------------------------ streaming run
        struct inflate_state *st = nullptr;
        Slot *s_state = nullptr, *s_in = nullptr;
        size_t fed = 0;
        std::vector<uint8_t> delivered;
        int final_ret = 0;        // first negative return, else 0
        bool finished = false, unfinished = false, stopped_need_dict = false;
        uint32_t calls = 0;
        bool last_drained = true;
        bool suspect = false;
        bool hdr_split = false; // some chunk boundary fell strictly inside the wrapper header
        bool giant_active = false;
        uint32_t giant_real = 0, giant_declared = 0; // bytes of the stream in the giant region / avail_in declared for it
        uint64_t suspect_hash = 0;

        uint64_t state_hash()
        {
                // everything except the caller-owned pointers
                uint64_t hh = hash_bytes(&st->avail_out, sizeof(st->avail_out));
                hh = hash_bytes(&st->total_out, sizeof(st->total_out), hh);
                hh = hash_bytes(&st->read_in, (uint8_t *) (st + 1) - (uint8_t *) &st->read_in, hh);
                return hh;
        }
        void retire_in()
        {
                if (s_in)
                        g_arena.release(s_in);
                s_in = nullptr;
        }

        // returns false when the session is over
        bool call(uint32_t feed, uint32_t out, int flags, bool in_tail)
        {
                uint32_t pending = st->avail_in;
                uint32_t remaining = (uint32_t) (bytes.size() - fed);
                if ((flags & 1) && pending > 0)
                        feed = 0;
                if ((flags & 2) && !last_drained)
                        feed = 0;
                if (feed > remaining)
                        feed = remaining;
                bool resumable_hdr = mode == ISAL_GZIP && hdr_len > 10; // (the zlib FDICT half of F1 is fixed: 6-byte headers are split freely)
                if (avoiding(plan, "F1") && resumable_hdr && fed < hdr_len && fed + feed < hdr_len) {
                        feed = (uint32_t) (hdr_len - fed); // steer away from open finding F1: never split an optional-field gzip header
                        if (feed > remaining)
                                feed = remaining;
                        COUNT("steer.F1");
                }
                if (resumable_hdr && fed + feed < hdr_len && fed + feed > 0)
                        COUNT("probe.split_inside_optional_wrapper_header");
                if ((mode == ISAL_GZIP || mode == ISAL_ZLIB) && fed + feed < hdr_len && fed + feed > 0)
                        hdr_split = true;
                int bs_before = st->block_state;
                // "all the rest, and the caller says so truthfully": what is pending plus every remaining byte of a valid stream lies at the
                // start of a 4 GiB region of readable memory and avail_in declares (almost) all of it - 32-bit sums of avail_in and a few
                // carried-over bytes wrap here and nowhere else
                if ((flags & 512) && pristine && !giant_active && (uint64_t) pending + remaining < (1u << 20) && remaining > 0) {
                        uint8_t *g = giant_source(pending + remaining);
                        if (g) {
                                if (pending)
                                        memcpy(g, st->next_in, pending);
                                memcpy(g + pending, bytes.data() + fed, remaining);
                                retire_in();
                                st->next_in = g;
                                st->avail_in = 0xffffffffu - (uint32_t) ((uint64_t) plan.geti("hugedelta") % 12);
                                giant_real = pending + remaining;
                                giant_declared = st->avail_in;
                                fed += remaining;
                                feed = remaining;
                                giant_active = true;
                                COUNT("io.avail_in_near_4GiB");
                        }
                }
                if (giant_active) {
                        // the input stays where it is
                } else if (feed > 0 || ((flags & 4) && pending > 0)) {
                        Slot *ns = g_arena.alloc(pending + feed, (flags & 32) ? (place ^ 1) : place, "in_chunk", 0, 1);
                        if (!ns)
                                return budget();
                        if (pending) {
                                memcpy(ns->data, st->next_in, pending);
                                COUNT("io.relocate_pending_input");
                        }
                        memcpy(ns->data + pending, bytes.data() + fed, feed);
                        retire_in();
                        s_in = ns;
                        st->next_in = ns->data;
                        st->avail_in = pending + feed;
                        fed += feed;
                        if (!last_drained)
                                COUNT("io.refill_before_drain");
                } else if (pending == 0 && !dangling) {
                        Slot *ns = g_arena.alloc(0, place, "in_empty", 0, 1);
                        if (!ns)
                                return budget();
                        retire_in();
                        s_in = ns;
                        st->next_in = ns->data;
                        COUNT("io.zero_len_in");
                }
                Slot *so = g_arena.alloc(out, (flags & 16) ? PLACE_START : PLACE_END, "out_chunk", fill + 20 + calls, 1);
                if (!so)
                        return budget();
                st->next_out = so->data;
                st->avail_out = out;
                if (out == 0)
                        COUNT("io.full_sink");
                else if (out < 8)
                        COUNT("io.tiny_sink");
                uint32_t ai0 = st->avail_in, to0 = st->total_out;
                uint8_t *ni0 = st->next_in;
                int ret = 0;
                calls++;
                h.calls++;
                scramble_regs(regs ? regs + calls : 0);
                if (GUARDED(gc, ret = isal_inflate(st))) {
                        report_fault(rr, h, gc.fi, strf("isal_inflate call %u (feed %u pending %u out %u, block_state %d, mode %d)", calls, feed, pending, out, bs_before, mode).c_str());
                        return false;
                }
                int bs = st->block_state;
                uint32_t consumed = ai0 - st->avail_in, produced = out - st->avail_out;
                if (ret >= 0 && (st->avail_in > ai0 || st->avail_out > out)) {
                        rr.fail("C06.accounting", strf("avail grew: in %u->%u out %u->%u", ai0, st->avail_in, out, st->avail_out));
                        return false;
                }
                if (ret < 0)
                        produced = consumed = 0; // after an error return neither the counters nor the buffer contents are promised
                if (ret >= 0 && (st->next_in != ni0 + consumed || st->next_out != so->data + produced)) {
                        rr.fail("C06.accounting", strf("call %u: consumed %u produced %u but next_in %+ld next_out %+ld", calls, consumed, produced, (long) (st->next_in - ni0), (long) (st->next_out - so->data)));
                        return false;
                }
                if (ret >= 0 && st->total_out != to0 + produced) {
                        rr.fail("C06.accounting", strf("call %u: produced %u bytes but total_out moved by %d", calls, produced, (int) (st->total_out - to0)));
                        return false;
                }
                if (!g_arena.canary_ok(so) || !g_arena.canary_ok(s_state)) {
                        rr.fail("C05.canary", strf("isal_inflate call %u changed bytes outside its declared buffers", calls));
                        return false;
                }
                if (!(ret == 0 || ret == ISAL_NEED_DICT || (ret <= -1 && ret >= -6))) {
                        rr.fail("C06.ret_undocumented", strf("isal_inflate returned %d", ret));
                        return false;
                }
                if ((unsigned) bs > ISAL_CHECKSUM_CHECK) {
                        rr.fail("C06.state", strf("illegal block_state %d", bs));
                        return false;
                }
                delivered.insert(delivered.end(), so->data, so->data + produced);
                uint64_t oh = hash_bytes(so->data, produced);
                g_arena.release(so);
                last_drained = st->avail_out > 0;
                h.rec("infl", { feed, out, ret, consumed, produced, bs_before, bs, st->total_out, (int64_t) oh });
                h.sigmix(((uint64_t) bs_before << 40) ^ ((uint64_t) bs << 32) ^ (size_class(consumed) << 16) ^ (size_class(produced) << 8) ^ (uint64_t) (ret & 0xff));
                if (out < 8 || feed == 0 || ret != 0)
                        h.unusual++;
                {
                        static uint64_t *tr[ISAL_CHECKSUM_CHECK + 1][ISAL_CHECKSUM_CHECK + 1];
                        uint64_t *&c = tr[bs_before][bs];
                        if (!c)
                                c = &g_cnt.m[strf("transition.inflate.%d>%d", bs_before, bs)];
                        ++*c;
                }
                // reach probes
                if (bs == ISAL_BLOCK_HDR)
                        COUNT("probe.block_hdr_carry");
                if (bs == ISAL_CHECKSUM_CHECK)
                        COUNT("probe.trailer_straddle");
                if (bs >= ISAL_GZIP_EXTRA_LEN && bs <= ISAL_GZIP_HCRC)
                        COUNT("probe.gzip_hdr_resume");
                if (bs == ISAL_ZLIB_DICT)
                        COUNT("probe.zlib_dict_resume");
                if (st->copy_overflow_length || st->write_overflow_len)
                        COUNT("probe.copy_or_write_overflow_pending");
                if (st->tmp_out_valid != st->tmp_out_processed)
                        COUNT("probe.tmp_out_pending");
                if (st->avail_in == 0 && s_in && rel) {
                        retire_in();
                        COUNT("mem.release_on_consume");
                }
                if (delivered.size() > (48u << 20)) {
                        COUNT("run.output_cap");
                        aborted = true;
                        return false;
                }
                if ((flags & 256) && ret == 0 && bs != ISAL_BLOCK_FINISH && (bs != ISAL_BLOCK_NEW_HDR || st->tmp_out_valid != st->tmp_out_processed)) {
                        // a dictionary offered in the middle of a block, or while decoded output is still waiting inside the state, has to be
                        // refused and must leave the state exactly as it was (C17: wrong-state dictionary calls, decompression side)
                        Slot *sd = g_arena.alloc(24, PLACE_END, "late_inflate_dict", fill + 500, 1);
                        if (!sd)
                                return budget();
                        uint64_t before_hash = state_hash();
                        int dr = 0;
                        if (GUARDED(gc, dr = isal_inflate_set_dict(st, sd->data, 24))) {
                                report_fault(rr, h, gc.fi, "isal_inflate_set_dict (wrong state)");
                                return false;
                        }
                        g_arena.release(sd);
                        COUNT("fault.inflate_dict_in_wrong_state");
                        h.rec("late_idict", { bs, dr });
                        if (dr == 0) {
                                rr.fail("C17.dict_wrong_state_accepted", strf("isal_inflate_set_dict accepted in block_state %d with %d decoded bytes still waiting inside the state", bs, (int) (st->tmp_out_valid - st->tmp_out_processed)));
                                return false;
                        }
                        if (state_hash() != before_hash) {
                                rr.fail("C17.dict_refusal_side_effect", "refused isal_inflate_set_dict modified the decoder state");
                                return false;
                        }
                }
                if (ret == ISAL_NEED_DICT) {
                        COUNT("probe.need_dict");
                        if (dict.empty() || !need_dict_zlib) {
                                stopped_need_dict = true;
                                return false;
                        }
                        Slot *sd = g_arena.alloc(dict.size(), place, "inflate_dict", 0, 1);
                        if (!sd)
                                return budget();
                        memcpy(sd->data, dict.data(), dict.size());
                        int dr = 0;
                        if (GUARDED(gc, dr = isal_inflate_set_dict(st, sd->data, (uint32_t) dict.size()))) {
                                report_fault(rr, h, gc.fi, "isal_inflate_set_dict");
                                return false;
                        }
                        g_arena.release(sd);
                        h.rec("setdict", { (int64_t) dict.size(), dr, (int64_t) st->dict_id });
                        need_dict_zlib = false;
                        if (dr != 0) {
                                rr.fail("C07.inflate_set_dict", strf("isal_inflate_set_dict after ISAL_NEED_DICT returned %d", dr));
                                return false;
                        }
                        return true;
                }
                if (ret < 0) {
                        final_ret = ret;
                        return false;
                }
                if (bs == ISAL_BLOCK_FINISH) {
                        finished = true;
                        return false;
                }
                // ---- progress / livelock (C06 clause 2)
                if (consumed == 0 && produced == 0) {
                        if (ai0 > 0 && out > 0) {
                                uint64_t hc = state_hash();
                                if (suspect && hc == suspect_hash) {
                                        rr.fail("C06.livelock", strf("two consecutive calls (%u) with %u input bytes and %u output bytes available returned 0 and left the decoder state byte-identical (block_state %d)", calls, ai0, out, bs));
                                        return false;
                                }
                                suspect = true;
                                suspect_hash = hc;
                                COUNT("probe.no_progress_call");
                        } else if (in_tail && fed == bytes.size() && ai0 == 0 && out > 0) {
                                unfinished = true; // everything supplied, nothing pending, decoder wants more: truncated stream
                                return false;
                        }
                } else
                        suspect = false;
                if (in_tail && fed == bytes.size() && st->avail_in == 0 && st->avail_out > 0 && produced == 0 && consumed == 0) {
                        unfinished = true;
                        return false;
                }
                return true;
        }
        bool aborted = false;
        bool budget()
        {
                COUNT("run.arena_budget_exhausted");
                h.rec("budget", {});
                aborted = true;
                return false;
        }

        void run_stream()
        {
                s_state = g_arena.alloc(sizeof(struct inflate_state), PLACE_END, "inflate_state", fill + 1, 8);
                if (!s_state)
                        return;
                st = (struct inflate_state *) s_state->data;
                int hb = (int) plan.geti("ihb");
                if (GUARDED(gc, isal_inflate_init(st))) {
                        report_fault(rr, h, gc.fi, "isal_inflate_init");
                        return;
                }
                st->crc_flag = mode;
                st->hist_bits = ihb();
                (void) hb;
                if (st->hist_bits && st->hist_bits < 15)
                        COUNT("cfg.inflate_limited_window");
                if (!dict.empty() && !need_dict_zlib) { // raw / no-header modes: the caller primes the dictionary up front
                        Slot *sd = g_arena.alloc(dict.size(), place, "inflate_dict", 0, 1);
                        if (!sd)
                                return;
                        memcpy(sd->data, dict.data(), dict.size());
                        int dr = 0;
                        if (GUARDED(gc, dr = isal_inflate_set_dict(st, sd->data, (uint32_t) dict.size()))) {
                                report_fault(rr, h, gc.fi, "isal_inflate_set_dict");
                                return;
                        }
                        g_arena.release(sd);
                        if (dr) {
                                rr.fail("C07.inflate_set_dict", strf("isal_inflate_set_dict on a fresh state returned %d", dr));
                                return;
                        }
                        COUNT("cfg.inflate_dict");
                }
                h.rec("iopen", { fmt, mode, (int64_t) bytes.size(), (int64_t) plain.size(), pristine, gfault, (int64_t) dict.size() });
                h.sigmix(fmt * 100 + mode * 7 + (pristine ? 1 : 0) + gfault * 1000);
                const Json &ops = plan.at("ops");
                bool over = false;
                for (size_t i = 0; i < ops.a.size() && !over; i++) {
                        const Json &op = ops.a[i];
                        uint32_t o_feed = (uint32_t) ((uint64_t) op.ai(0) % (1u << 24)), o_out = (uint32_t) ((uint64_t) op.ai(1) % (1u << 24));
                        int o_flags = (int) op.ai(2);
                        if (o_flags & 64) {
                                // the output space of this call ends 1-3 bytes before the end of the data (a fault placed right before completion)
                                size_t k = 1 + o_out % 3;
                                if (plain.size() > delivered.size() + k) {
                                        o_out = (uint32_t) (plain.size() - delivered.size() - k);
                                        COUNT("io.sink_ends_just_before_end_of_data");
                                }
                        }
                        if (o_flags & 128) { // likewise the input of this call ends 1-8 bytes before the end of the stream
                                size_t k = 1 + o_feed % 8;
                                if (bytes.size() > fed + k) {
                                        o_feed = (uint32_t) (bytes.size() - fed - k);
                                        COUNT("io.source_ends_just_before_end_of_stream");
                                }
                        }
                        if (!call(o_feed, o_out, o_flags, false))
                                over = true;
                        if (rr.violated())
                                return;
                }
                const Json &tl = plan.at("tail");
                uint32_t tin = (uint32_t) ((uint64_t) tl.ai(0) % (1u << 24)), tout = (uint32_t) ((uint64_t) tl.ai(1) % (1u << 24));
                if (tout == 0)
                        tout = 1;
                uint64_t budget_calls = 4 * ((uint64_t) bytes.size() + std::max<size_t>(plain.size(), 1000) * 4) + 1000, tc = 0;
                while (!over) {
                        if (!call(tin ? tin : (uint32_t) bytes.size(), tout, 0, true))
                                over = true;
                        if (rr.violated())
                                return;
                        if (++tc > budget_calls) {
                                rr.fail("C06.budget", strf("decoder neither finished nor failed after %llu tail calls (%zu input bytes)", (unsigned long long) tc, bytes.size()));
                                return;
                        }
                }
        }

        // what the reference makes of the bytes the decoder is handed (computed once, on demand)
        RefInflate ref_cache;
        int ref_cache_status = 0;
        bool ref_cached = false;
        const RefInflate &refdec()
        {
                if (!ref_cached) {
                        ref_cache.init(refwrap, dict.empty() ? nullptr : dict.data(), dict.size());
                        ref_cache_status = ref_cache.feed(bytes.data(), bytes.size());
                        if (ref_cache_status == REF_NEED_DICT)
                                ref_cache_status = ref_cache.feed(bytes.data(), bytes.size());
                        ref_cached = true;
                }
                return ref_cache;
        }
        // A one-shot call that returns a non-negative status (0, or "output full") vouches for the bytes it delivered: they must be a
        // prefix of what the reference decodes, and never more than the reference can decode before it meets an error.
        bool oneshot_prefix_ok(int ret, const uint8_t *out, size_t produced, size_t cap)
        {
                if (ret < 0 || ret == ISAL_NEED_DICT || !dict.empty() || need_dict_zlib || (ihb() && ihb() < 15))
                        return true;
                const RefInflate &rf = refdec();
                size_t common = std::min(produced, rf.out.size());
                if (memcmp(out, rf.out.data(), common)) {
                        size_t k = 0;
                        while (out[k] == rf.out[k])
                                k++;
                        rr.fail("C06.wrong_output", strf("one-shot decoder (avail_out %zu) returned %d with %zu bytes delivered; byte %zu differs from the reference decoder's output", cap, ret, produced, k));
                        return false;
                }
                if (produced > rf.out.size() && ref_cache_status < 0 && ref_cache_status != REF_ERR_OUTLIMIT && ref_cache_status != REF_ERR_TRAILER) {
                        rr.fail("C06.wrong_output", strf("one-shot decoder (avail_out %zu) returned %d with %zu bytes delivered, but no conforming decoder gets past byte %zu (reference: %s)", cap, ret, produced, rf.out.size(), ref_status_name(ref_cache_status)));
                        return false;
                }
                return true;
        }
        // the decoder's announced window: 0 = default, 1..15 = log2 of the largest distance it has to accept
        uint32_t ihb() const
        {
                int64_t hb = plan.geti("ihb");
                return hb >= 1 && hb <= 15 ? (uint32_t) hb : 0;
        }
        // ------------------------------------------------------------ verdicts
        void judge()
        {
                if (rr.violated() || stopped_need_dict || aborted)
                        return;
                RefInflate ref;
                ref.init(refwrap, dict.empty() ? nullptr : dict.data(), dict.size());
                ref.out_limit = 64u << 20;
                int rs = ref.feed(bytes.data(), bytes.size());
                bool dict_never_supplied = false;
                if (rs == REF_NEED_DICT) {
                        dict_never_supplied = dict.empty();
                        rs = ref.feed(bytes.data(), bytes.size());
                }
                if (dict_never_supplied) {
                        // the header announces a preset dictionary (FDICT + DICTID) and the caller has none: whatever the data looks like
                        // without it, completion must not be reported
                        COUNT("probe.fdict_without_dictionary_judged");
                        if (finished)
                                rr.fail("C06.false_success", strf("decoder reports completion (%zu bytes out, mode %d) of a zlib stream that announces a preset dictionary (DICTID %08x) although none was supplied", delivered.size(), mode, ref.zl.dictid));
                        return;
                }
                h.rec("verdict", { finished, final_ret, unfinished, rs, (int64_t) delivered.size(), (int64_t) hash_bytes(delivered.data(), delivered.size()) });
                // A decoder told that the window is 2^w may refuse (as an invalid symbol) any distance beyond it.  The reference has no
                // such limit: where it met a longer distance, or the injected fault is itself a distance, only the safety clauses and
                // "finished means the reference's bytes" remain; everywhere else the limited decoder must behave exactly like the default.
                uint32_t w = ihb();
                bool window_exceeded = w && w < 15 && (ref.max_dist > (1u << w) || gfault == GF_DIST_TOO_FAR || gfault == GF_DIST_SYM_30);
                if (window_exceeded) {
                        COUNT("probe.distance_beyond_decoder_window");
                        if (finished && rs == REF_DONE && (ref.out.size() != delivered.size() || memcmp(ref.out.data(), delivered.data(), delivered.size())))
                                rr.fail("C06.wrong_output", strf("decoder (window 2^%u) finished with %zu bytes, reference decodes %zu bytes", w, delivered.size(), ref.out.size()));
                        else if (finished && rs != REF_DONE && rs != REF_ERR_OUTLIMIT && rs != REF_ERR_TRAILER)
                                rr.fail("C06.false_success", strf("decoder (window 2^%u) reports completion but the reference decoder says: %s", w, ref_status_name(rs)));
                        return;
                }
                bool verifying = mode == ISAL_GZIP || mode == ISAL_ZLIB || mode == ISAL_GZIP_NO_HDR_VER || mode == ISAL_ZLIB_NO_HDR_VER;
                // (3) no false success
                if (finished) {
                        COUNT("run.inflate_finished");
                        if (rs == REF_ERR_TRAILER && verifying) {
                                rr.fail("C11.false_success", strf("decoder reports success in verifying mode %d but the stored trailer (%08x/%u) does not match the %zu delivered bytes", mode, ref.trailer_crc, ref.trailer_isize, delivered.size()));
                                if (expect_class == ISAL_INCORRECT_CHECKSUM && fed == bytes.size())
                                        rr.alt = "C06"; // a single trailer fault: C06 names the class that has to come back
                                return;
                        }
                        if (rs != REF_DONE && rs != REF_ERR_OUTLIMIT) {
                                rr.fail("C06.false_success", strf("decoder reports completion (%zu bytes out) but the reference decoder says: %s at bit %llu of %zu bytes (mode %d)", delivered.size(), ref_status_name(rs), (unsigned long long) ref.err_bit, bytes.size(), mode));
                                return;
                        }
                        if (rs == REF_DONE && (ref.out.size() != delivered.size() || memcmp(ref.out.data(), delivered.data(), delivered.size()))) {
                                rr.fail("C06.wrong_output", strf("decoder finished with %zu bytes, reference decodes %zu bytes; content %s", delivered.size(), ref.out.size(), ref.out.size() == delivered.size() ? "differs" : "length differs"));
                                return;
                        }
                        // C11: checksum exposed in the state
                        if (mode != ISAL_DEFLATE) {
                                bool gz = mode == ISAL_GZIP || mode == ISAL_GZIP_NO_HDR || mode == ISAL_GZIP_NO_HDR_VER;
                                uint32_t want = gz ? ref_crc32(0, delivered.data(), delivered.size()) : ref_adler32(1, delivered.data(), delivered.size());
                                if (st->crc != want) {
                                        rr.fail("C11.state_crc", strf("after completion state.crc = %08x, reference %s of the delivered bytes = %08x (mode %d)", st->crc, gz ? "CRC-32" : "Adler-32", want, mode));
                                        return;
                                }
                        }
                        if (st->total_out != (uint32_t) delivered.size()) {
                                rr.fail("C06.accounting", strf("total_out %u after completion, delivered %zu", st->total_out, delivered.size()));
                                return;
                        }
                }
                // (3b) the same for the one-shot decoder (ample sink): success only if the reference accepts, with the same bytes
                if (os1.ran && os1.ret == 0 && os1.block_state == ISAL_BLOCK_FINISH) {
                        if (rs == REF_ERR_TRAILER && verifying) {
                                rr.fail("C11.false_success", strf("one-shot decoder reports success in verifying mode %d but the stored trailer does not match the %zu delivered bytes", mode, os1.out.size()));
                                if (expect_class == ISAL_INCORRECT_CHECKSUM)
                                        rr.alt = "C06";
                                return;
                        }
                        if (rs != REF_DONE && rs != REF_ERR_OUTLIMIT && rs != REF_ERR_TRAILER) {
                                rr.fail("C06.false_success", strf("one-shot decoder reports completion (%zu bytes out) but the reference decoder says: %s at bit %llu of %zu bytes (mode %d)", os1.out.size(), ref_status_name(rs), (unsigned long long) ref.err_bit, bytes.size(), mode));
                                return;
                        }
                        if (rs == REF_DONE && (ref.out.size() != os1.out.size() || memcmp(ref.out.data(), os1.out.data(), os1.out.size()))) {
                                rr.fail("C06.wrong_output", strf("one-shot decoder finished with %zu bytes, reference decodes %zu bytes", os1.out.size(), ref.out.size()));
                                return;
                        }
                }
                // (4) documented class for single named faults, all bytes supplied
                if (expect_class && fed == bytes.size() && bytes.size() >= fault_end_byte + 8) {
                        if (final_ret != expect_class) {
                                rr.fail("C06.error_class", strf("single fault '%s' (ends at byte %llu of %zu): expected status %d, streaming decoder ended with ret %d finished %d unfinished %d", gfault ? grammar_fault_name(gfault) : "wrapper/trailer", (unsigned long long) fault_end_byte, bytes.size(), expect_class, final_ret, (int) finished, (int) unfinished));
                                return;
                        }
                        if (os1.ran && os1.ret != ISAL_OUT_OVERFLOW && os1.ret != expect_class) { // a full sink may be reported first
                                rr.fail("C06.error_class", strf("single fault '%s': expected status %d, one-shot decoder returned %d", gfault ? grammar_fault_name(gfault) : "wrapper/trailer", expect_class, os1.ret));
                                return;
                        }
                        COUNT("probe.documented_class_confirmed");
                }
                // C07 (decompression side): streamed == one-shot, on streams that are valid by construction
                if (pristine && os1.ran && os1.ret != ISAL_OUT_OVERFLOW) {
                        bool os_ok = os1.ret == 0 && os1.block_state == ISAL_BLOCK_FINISH;
                        if (os_ok != finished || (os_ok && (os1.out.size() != delivered.size() || memcmp(os1.out.data(), delivered.data(), delivered.size()) || os1.total_out != st->total_out))) {
                                rr.fail("C07.stream_vs_oneshot", strf("valid stream (%zu bytes, fmt %d mode %d): one-shot ret %d state %d out %zu; streaming finished %d ret %d unfinished %d out %zu after %u calls", bytes.size(), fmt, mode, os1.ret, os1.block_state, os1.out.size(), (int) finished, final_ret, (int) unfinished, delivered.size(), calls));
                                return;
                        }
                        if (!os_ok && os1.ret < 0 && final_ret != os1.ret) {
                                rr.fail("C07.stream_vs_oneshot", strf("valid stream: one-shot status %d, streaming status %d", os1.ret, final_ret));
                                return;
                        }
                        if (os_ok && (mode != ISAL_DEFLATE) && os1.crc != st->crc) {
                                rr.fail("C07.stream_vs_oneshot", strf("checksum in state differs: one-shot %08x streaming %08x", os1.crc, st->crc));
                                return;
                        }
                        COUNT("probe.stream_equals_oneshot");
                }
                // A stream that is valid by construction, supplied completely, which the reference decodes - and which both the one-shot and
                // the streaming decoder refuse with the same status: consistent, and wrong.  For a stream out of the library's own
                // compressor this is C07's round trip; where the status is "incorrect checksum" in a verifying mode the checksum the decoder
                // computed over bytes it delivered correctly is not the reference checksum (C11).
                if (pristine && !finished && final_ret < 0 && rs == REF_DONE && fed == bytes.size() && delivered.size() == ref.out.size() && !memcmp(delivered.data(), ref.out.data(), delivered.size())) {
                        bool vfy = verifying && final_ret == ISAL_INCORRECT_CHECKSUM;
                        rr.fail(vfy ? "C11.valid_checksum_rejected" : "C07.valid_stream_rejected", strf("valid stream (%zu bytes, fmt %d mode %d, reference decodes %zu bytes, all delivered correctly): decoder ended with status %d; state.crc %08x", bytes.size(), fmt, mode, ref.out.size(), final_ret, st->crc));
                        rr.alt = vfy ? "C07" : "";
                        return;
                }
                if (pristine && dict.size() && finished)
                        COUNT("probe.dict_roundtrip");
                if (pristine && !finished && !os1.ran && rs == REF_DONE) {
                        // dictionary sessions have no one-shot twin: the reference is the only judge
                        rr.fail("C07.stream_vs_reference", strf("valid stream with dictionary: streaming ended ret %d unfinished %d, reference decodes %zu bytes", final_ret, (int) unfinished, ref.out.size()));
                        return;
                }
                // infrastructure cross-check of the reference itself (never a verdict on ISA-L)
                if ((h.h & 15) == 0 && bytes.size() < (1u << 20)) {
                        std::string why;
                        if (!zlib_agrees(refwrap, bytes.data(), bytes.size(), rs, ref.out, why, dict.empty() ? nullptr : dict.data(), dict.size())) {
                                g_infra_faults++;
                                g_infra_msg = "reference/zlib disagreement: " + why + " plan " + plan.str();
                        }
                        COUNT("stat.ref_zlib_crosschecks");
                }
        }

        void run()
        {
                run_inner();
                // a valid wrapped stream that only fails because its header was split across calls is as much a failure of
                // "headers are parsed ... for any chunking of the input" (C19) as of slicing independence (C07)
                if (rr.violated() && hdr_split && pristine && rr.oracle.compare(0, 14, "C07.stream_vs_") == 0)
                        rr.alt = "C19";
        }
        void run_inner()
        {
                const Json &m = plan.at("mem");
                rel = m.geti("rel", 1) != 0;
                place = (int) (m.geti("place") & 1);
                fill = (uint64_t) m.geti("fill");
                regs = (uint64_t) m.geti("regs");
                dangling = m.geti("dangling") != 0;
                if (!build())
                        return;
                if (avoiding(plan, "F1") && (mode == ISAL_GZIP || mode == ISAL_ZLIB)) {
                        // steering around open finding F1 must use the header the decoder will actually see: transport damage can
                        // change XLEN / FLG and with them the header's real length
                        RefInflate hp;
                        hp.init(mode == ISAL_GZIP ? RW_GZIP : RW_ZLIB);
                        hp.feed(bytes.data(), bytes.size());
                        if (mode == ISAL_GZIP)
                                hdr_len = hp.gz.present ? hp.gz.len : bytes.size();
                        else
                                hdr_len = hp.zl.present ? hp.zl.len : std::min<size_t>(bytes.size(), 6);
                }
                if (getenv("SIM_DUMP_STREAM")) {
                        fprintf(stderr, "stream (%zu bytes, hdr %zu, trailer %zu, mode %d):", bytes.size(), hdr_len, trl_len, mode);
                        for (uint8_t b : bytes)
                                fprintf(stderr, " %02x", b);
                        fprintf(stderr, "\n");
                }
                if (!run_oneshot() || !sweep_oneshot())
                        return;
                run_stream();
                judge();
                if (!rr.violated() && !aborted && !stopped_need_dict && plan.geti("poke"))
                        poke();
        }
        // The caller keeps calling after the session is over (bytes keep arriving on a socket): the decoder must stay memory-safe and
        // within the documented status codes, and after completion it must not produce further output.
        void poke()
        {
                bool was_finished = finished;
                if (!was_finished && final_ret >= 0)
                        return; // the session ended waiting for more input: nothing abnormal to continue from
                Rng g((uint64_t) plan.at("mem").geti("fill") + 4242, "poke");
                for (int k = 0; k < 2; k++) {
                        size_t n = 1 + (size_t) g.below(40);
                        Slot *si = g_arena.alloc(n, place, "poke_in", 0, 1), *so = g_arena.alloc(64, PLACE_END, "poke_out", fill + 300 + k, 1);
                        if (!si || !so)
                                return;
                        for (size_t i = 0; i < n; i++)
                                si->data[i] = fed + i < bytes.size() ? bytes[fed + i] : (uint8_t) g.u64();
                        st->next_in = si->data;
                        st->avail_in = (uint32_t) n;
                        st->next_out = so->data;
                        st->avail_out = 64;
                        int ret = 0;
                        h.calls++;
                        if (GUARDED(gc, ret = isal_inflate(st))) {
                                report_fault(rr, h, gc.fi, was_finished ? "isal_inflate called again after completion" : "isal_inflate called again after an error return");
                                return;
                        }
                        uint32_t produced = 64 - st->avail_out;
                        // after an error return the decoder's state is whatever the failed call left (tables half built, garbage the caller
                        // pre-filled): what a further call returns is outside the contract and must not enter the history, or twin runs
                        // with different garbage would differ legitimately
                        if (was_finished)
                                h.rec("poke", { 1, ret, ret < 0 ? 0 : (int64_t) produced, st->block_state });
                        else
                                h.rec("poke", { 0 });
                        COUNT(was_finished ? "io.call_after_completion" : "io.call_after_error");
                        if (!g_arena.canary_ok(so) || !g_arena.canary_ok(s_state)) {
                                rr.fail("C05.canary", "isal_inflate called after the end of the session changed bytes outside its declared buffers");
                                return;
                        }
                        if (!(ret == 0 || ret == ISAL_NEED_DICT || (ret <= -1 && ret >= -6))) {
                                rr.fail("C06.ret_undocumented", strf("isal_inflate called again after %s returned %d", was_finished ? "completion" : "an error", ret));
                                return;
                        }
                        if (was_finished && ret >= 0 && produced) {
                                rr.fail("C06.wrong_output", strf("isal_inflate called again after completion produced %u more bytes", produced));
                                return;
                        }
                        // (What a call made after an error return reports is not judged: ISA-L's errors are not sticky - the decoder resumes
                        // at the next symbol - and the property speaks about the verdict on the stream, which has been given.)
                        g_arena.release(si);
                        g_arena.release(so);
                }
        }
};
} // namespace

static void exec_inflate(const Json &plan, RunResult &rr, Hist &h)
{
        InflateSession s(plan, rr, h);
        s.run();
}

static Json gen_inflate(Rng &r0, const std::string &focus, int tier)
{
        Rng r(r0.u64(), "inflate.plan"), rio(r0.u64(), "inflate.io"), rx(r0.u64(), "inflate.xport");
        Json p = Json::obj();
        p.set("prof", "inflate").set("focus", focus);
        int fmt = (int) r.below(3);
        if (focus == "C11" || focus == "C19")
                fmt = 1 + (int) r.below(2);
        p.set("os_out", r.chance(1, 6) ? (int64_t) (1 + r.logsize(200000)) : 0);
        p.set("os_sweep", (int) r.chance(1, focus == "C05" || focus == "C06" ? 6 : 20));
        p.set("poke", (int) r.chance(1, 3));
        p.set("fmt", fmt).set("mode", focus == "C19" ? 0 : (int) r.below(4)).set("zlevel", (int) r.below(4)).set("ihb", (int) (r.chance(1, 2) ? 0 : r.chance(1, 4) ? 15 : r.chance(1, 4) ? 1 + r.below(8) : 9 + r.below(6)));
        Json src = Json::obj();
        int kind = (int) r.below(3);
        bool damaged = focus == "C06" ? r.chance(4, 5) : focus == "C11" ? r.chance(3, 4) : (focus == "C07" || focus == "C19" || focus == "C17") ? false : r.chance(1, 2);
        uint64_t maxlen = r.chance(1, focus == "C06" ? 6 : 12) ? 150000 : r.chance(1, 3) ? 40000 : 4000;
        Json sdata = gen_data_spec(r, maxlen, 0);
        maybe_adler_worst_case(r, focus, sdata);
        bool afin = fmt == 2 && r.chance(1, focus == "C06" || focus == "C11" ? 8 : 30); // Adler-32 halves at 0 / 65520 / below 15
        if (afin) {
                sdata.set("afin", (int) (1 + r.below(15)));
                if ((uint64_t) sdata.geti("n") < 1400)
                        sdata.set("n", (uint64_t) (1400 + r.below(4000)));
                if (kind == 2)
                        kind = (int) r.below(2); // the grammar generator has no data to tune
        }
        src.set("kind", kind).set("data", sdata).set("level", (int) r.below(4));
        static const int hbs[] = { 0, 0, 0, 9, 12, 15 };
        src.set("hb", r.pick(hbs));
        Json ch = Json::arr();
        for (int k = (int) r.below(4); k > 0; k--) {
                Json c = Json::arr();
                c.push((uint32_t) r.logsize(maxlen)).push((int) r.below(3));
                ch.push(c);
        }
        src.set("chunks", ch);
        Json zl = Json::obj();
        zl.set("level", (int) r.below(10)).set("strategy", (int) r.below(5)).set("wbits", (int) r.below(7)).set("memlevel", (int) r.below(9));
        src.set("zl", zl);
        Json gram = Json::obj();
        int gf = 0;
        if (damaged && kind == 2 && rx.chance(2, 3))
                gf = 1 + (int) rx.below(GF_NKINDS - 1);
        gram.set("s", r.u64() >> 16).set("n", (uint64_t) r.logsize(r.chance(1, 6) ? 100000 : 5000)).set("fault", gf).set("dict", r.chance(1, 5) ? (uint64_t) r.logsize(32768) : 0).set("ld", r.chance(1, 3) ? (int) (1 + r.below(3)) : 0);
        src.set("gram", gram);
        Json dj = Json::obj();
        dj.set("n", r.chance(1, focus == "C19" ? 2 : 6) ? (r.chance(1, 5) ? (uint64_t) (32767 + r.logsize(37233)) : (uint64_t) (1 + r.logsize(32767))) : 0).set("s", r.u64() >> 20);
        src.set("dict", dj);
        p.set("src", src);
        Json gz = Json::obj();
        gz.set("flags", r.chance(1, focus == "C19" ? 8 : 2) ? 0 : (int) r.below(32)).set("mtime", r.u32()).set("xfl", (int) r.below(256)).set("os", (int) r.below(256)).set("s", r.u64() >> 20).set("xlen", (int) r.below(70)).set("nlen", (int) r.below(40)).set("clen", (int) r.below(40));
        p.set("gz", gz);
        // ---- damage
        Json dm = Json::arr();
        if (damaged && !gf) {
                int nd = rx.chance(4, 5) ? 1 : 2 + (int) rx.below(3);
                for (int k = 0; k < nd; k++) {
                        Json d = Json::arr();
                        int dk;
                        uint64_t c = rx.below(10);
                        if (focus == "C11")
                                dk = c < 3 ? 1 : c < 7 ? 2 : c < 9 ? 3 : 5;
                        else
                                dk = c < 3 ? 1 : c < 5 ? 2 : c < 7 ? 3 : c < 8 ? 4 : 5;
                        int region = (int) rx.below(6);
                        if (focus == "C11" && rx.chance(1, 2))
                                region = rx.chance(1, 2) ? 3 : 1;
                        d.push(dk).push(region).push(rx.chance(1, 2) ? (uint64_t) rx.below(40) : rx.u64() >> 40).push((int) rx.below(256));
                        dm.push(d);
                }
        }
        if (afin && kind != 2 && r.chance(1, 2)) {
                dm = Json::arr();
                Json d = Json::arr();
                d.push(6).push(0).push(0).push((int) (1 + r.below(3)));
                dm.push(d);
        }
        p.set("damage", dm);
        p.set("hugedelta", (int) rio.below(12));
        bool use_giant = rio.chance(1, 25); // one session in twenty-five: from one of its calls on, avail_in is close to 2^32 (flag 512 on one operation)
        // ---- call history
        int im = (int) rio.below(6), om = (int) rio.below(6);
        uint32_t big = (uint32_t) std::max<uint64_t>((uint64_t) src.at("data").geti("n"), 64);
        int discipline = (int) rio.below(4);
        uint32_t nops = (uint32_t) rio.below(60);
        Json ops = Json::arr();
        for (uint32_t i = 0; i < nops; i++) {
                uint32_t feed = gen_chunk(rio, rio.chance(1, 4) ? (int) rio.below(6) : im, big);
                uint32_t out = gen_chunk(rio, rio.chance(1, 4) ? (int) rio.below(6) : om, big + 64);
                int flags = (discipline & 1 ? 1 : 0) | (discipline & 2 ? 2 : 0) | (rio.chance(1, 10) ? 4 : 0) | (rio.chance(1, 4) ? 16 : 0) | (rio.chance(1, 4) ? 32 : 0) | (rio.chance(1, 12) ? 64 : 0) | (rio.chance(1, 12) ? 128 : 0) | (rio.chance(1, focus == "C17" ? 3 : 12) ? 256 : 0);
                Json o = Json::arr();
                o.push(feed).push(out).push(flags);
                ops.push(o);
        }
        bool single_split = rio.chance(1, 6);
        if (single_split) { // exactly one split of the input (at any position, biased to headers and the trailer) and/or of the output
                ops = Json::arr();
                uint32_t k = rio.chance(1, 2) ? (uint32_t) rio.below(64) : rio.chance(1, 2) ? (uint32_t) rio.below(700) : (uint32_t) rio.logsize(big);
                uint32_t o1 = rio.chance(1, 2) ? big * 2 + 4096 : (uint32_t) rio.logsize(big);
                Json o = Json::arr();
                bool whole = rio.chance(1, 3); // all the input at once, the sink ending just before the end of the data
                o.push(whole ? big * 2 + 4096 : k).push(o1).push(whole ? 64 : rio.chance(1, 4) ? 64 : 0);
                ops.push(o);
        }
        if (use_giant) {
                Json o = Json::arr();
                o.push(0).push(gen_chunk(rio, om, big + 64)).push(512);
                size_t at = ops.a.empty() ? 0 : (size_t) rio.below(ops.a.size() + 1);
                ops.a.insert(ops.a.begin() + at, o);
        }
        p.set("ops", ops);
        Json tl = Json::arr();
        uint32_t tin = rio.chance(1, 2) ? 0 : std::max<uint32_t>(1, gen_chunk(rio, im, big));
        if (single_split)
                tin = 0;
        uint32_t tout = rio.chance(1, 2) || single_split ? big * 2 + 4096 : std::max<uint32_t>(1, gen_chunk(rio, om, big + 4096));
        if (big > 20000) {
                if (tout < 64)
                        tout += 64;
                if (tin && tin < 64)
                        tin += 64;
        }
        tl.push(tin).push(tout);
        p.set("tail", tl);
        Json mem = Json::obj();
        mem.set("rel", (int) !r.chance(1, 10)).set("place", (int) r.below(2)).set("fill", r.u64() >> 24).set("dangling", (int) r.below(2)).set("regs", r.chance(1, 4) ? 0 : r.u64() >> 24).set("skip", r.chance(1, 2) ? 0 : (int) r.below(4096));
        p.set("mem", mem);
        Json av = Json::arr();
        for (auto &a : g_avoid)
                av.push(a);
        p.set("avoid", av);
        maybe_swarm_cpu(r, p, 1, 10);
        (void) tier;
        return p;
}

extern const Profile prof_inflate;
const Profile prof_inflate = { "inflate", gen_inflate, exec_inflate };
