// cpu.cc — CPU seam (stub for now)
#include "sim.h"
void sim_run_begin() {}
void sim_run_end() {}
bool cpu_seam_init() { return true; }
