// ref.cc — reference models.  Written from RFC 1950/1951/1952; shares no code with ISA-L or zlib.
#include "ref.h"

// ------------------------------------------------------------------ checksums
uint32_t ref_crc32_bitserial(uint32_t crc, const uint8_t *p, size_t n)
{
        crc = ~crc;
        for (size_t i = 0; i < n; i++) {
                crc ^= p[i];
                for (int k = 0; k < 8; k++)
                        crc = (crc >> 1) ^ (0xEDB88320u & (0u - (crc & 1)));
        }
        return ~crc;
}
static uint32_t crc_tab[256];
static bool crc_tab_init = false;
uint32_t ref_crc32(uint32_t crc, const uint8_t *p, size_t n)
{
        if (!crc_tab_init) {
                for (uint32_t i = 0; i < 256; i++) {
                        uint32_t c = i;
                        for (int k = 0; k < 8; k++)
                                c = (c >> 1) ^ (0xEDB88320u & (0u - (c & 1)));
                        crc_tab[i] = c;
                }
                crc_tab_init = true;
        }
        crc = ~crc;
        for (size_t i = 0; i < n; i++)
                crc = crc_tab[(crc ^ p[i]) & 0xff] ^ (crc >> 8);
        return ~crc;
}
uint32_t ref_adler32(uint32_t adler, const uint8_t *p, size_t n)
{
        uint32_t a = adler & 0xffff, b = adler >> 16;
        for (size_t i = 0; i < n; i++) {
                a += p[i];
                if (a >= 65521)
                        a -= 65521;
                b += a;
                if (b >= 65521)
                        b -= 65521;
        }
        return (b << 16) | a;
}
uint8_t ref_gf_mul(uint8_t a, uint8_t b)
{
        uint32_t r = 0, aa = a;
        for (int i = 0; i < 8; i++) {
                if (b & (1 << i))
                        r ^= aa << i;
        }
        for (int i = 15; i >= 8; i--)
                if (r & (1u << i))
                        r ^= 0x11Du << (i - 8);
        return (uint8_t) r;
}

const char *ref_status_name(int s)
{
        switch (s) {
        case REF_DONE: return "done";
        case REF_NEED_MORE: return "need_more";
        case REF_NEED_DICT: return "need_dict";
        case REF_ERR_BTYPE: return "btype3";
        case REF_ERR_STORED: return "len_nlen";
        case REF_ERR_OVERSUB: return "oversubscribed";
        case REF_ERR_REPEAT: return "repeat";
        case REF_ERR_NOEOB: return "no_eob_code";
        case REF_ERR_BADSYM: return "bad_symbol";
        case REF_ERR_UNASSIGNED: return "unassigned_code";
        case REF_ERR_DIST: return "distance_too_far";
        case REF_ERR_MAGIC: return "magic";
        case REF_ERR_METHOD: return "method";
        case REF_ERR_FCHECK: return "fcheck";
        case REF_ERR_TRAILER: return "trailer";
        case REF_ERR_OUTLIMIT: return "outlimit";
        }
        return "?";
}

// ------------------------------------------------------------------ inflate
namespace
{
struct Bits {
        const uint8_t *buf;
        uint64_t nbits, pos;
        bool starved = false;
        bool have(uint64_t n) const { return pos + n <= nbits; }
        // returns 0 and sets starved if not enough bits
        uint32_t get(int n)
        {
                if (!have(n)) {
                        starved = true;
                        return 0;
                }
                uint32_t v = 0;
                for (int i = 0; i < n; i++, pos++)
                        v |= (uint32_t) ((buf[pos >> 3] >> (pos & 7)) & 1) << i;
                return v;
        }
};
static const uint16_t len_base[29] = { 3, 4, 5, 6, 7, 8, 9, 10, 11, 13, 15, 17, 19, 23, 27, 31, 35, 43, 51, 59, 67, 83, 99, 115, 131, 163, 195, 227, 258 };
static const uint8_t len_extra[29] = { 0, 0, 0, 0, 0, 0, 0, 0, 1, 1, 1, 1, 2, 2, 2, 2, 3, 3, 3, 3, 4, 4, 4, 4, 5, 5, 5, 5, 0 };
static const uint16_t dist_base[30] = { 1, 2, 3, 4, 5, 7, 9, 13, 17, 25, 33, 49, 65, 97, 129, 193, 257, 385, 513, 769, 1025, 1537, 2049, 3073, 4097, 6145, 8193, 12289, 16385, 24577 };
static const uint8_t dist_extra[30] = { 0, 0, 0, 0, 1, 1, 2, 2, 3, 3, 4, 4, 5, 5, 6, 6, 7, 7, 8, 8, 9, 9, 10, 10, 11, 11, 12, 12, 13, 13 };
static const uint8_t clen_order[19] = { 16, 17, 18, 0, 8, 7, 9, 6, 10, 5, 11, 4, 12, 3, 13, 2, 14, 1, 15 };

// canonical code: count[len], symbols sorted by (len, symbol).  Returns <0 if over-subscribed, 0 if complete, >0 if incomplete
static int construct(uint16_t *count, uint16_t *symbol, const uint8_t *length, int n)
{
        for (int l = 0; l <= 15; l++)
                count[l] = 0;
        for (int s = 0; s < n; s++)
                count[length[s]]++;
        int left = 1;
        for (int l = 1; l <= 15; l++) {
                left <<= 1;
                left -= count[l];
                if (left < 0)
                        return left;
        }
        uint16_t offs[16];
        offs[1] = 0;
        for (int l = 1; l < 15; l++)
                offs[l + 1] = offs[l] + count[l];
        for (int s = 0; s < n; s++)
                if (length[s])
                        symbol[offs[length[s]]++] = (uint16_t) s;
        return left;
}
// decode one symbol; -1 = starved, -2 = unassigned code
static int decode(Bits &b, const uint16_t *count, const uint16_t *symbol)
{
        int code = 0, first = 0, index = 0;
        for (int l = 1; l <= 15; l++) {
                if (!b.have(1)) {
                        b.starved = true;
                        return -1;
                }
                code |= (int) b.get(1);
                int c = count[l];
                if (code - c < first)
                        return symbol[index + (code - first)];
                index += c;
                first += c;
                first <<= 1;
                code <<= 1;
        }
        return -2;
}
} // namespace

void RefInflate::init(int wrap_, const uint8_t *dict_, size_t dict_len_)
{
        wrap = wrap_;
        dict = dict_;
        dict_len = dict_len_;
        out.clear();
        blocks.clear();
        gz = RefGzipHdr();
        zl = RefZlibHdr();
        max_dist = 0;
        min_reach = 0;
        floor = INT64_MIN;
        floor_violated = false;
        deflate_end_bit = 0;
        end_byte = 0;
        trailer_ok = true;
        status = REF_NEED_MORE;
        bitpos = 0;
        err_bit = 0;
        phase = (wrap == RW_GZIP || wrap == RW_ZLIB) ? 0 : 1;
        cur_final = false;
        stored_left = 0;
}

// phases: 0 wrapper header, 1 block header, 2 stored body, 3 huffman body, 4 trailer, 5 done, 6 error
int RefInflate::feed(const uint8_t *buf, size_t len)
{
        if (phase == 5 || phase == 6)
                return status;
        if (status == REF_NEED_DICT)
                status = REF_NEED_MORE; // caller supplied the dictionary via dict/dict_len
        Bits b { buf, (uint64_t) len * 8, bitpos };
#define FAILS(code)                                                                                \
        do {                                                                                       \
                err_bit = bitpos;                                                                  \
                phase = 6;                                                                         \
                return status = (code);                                                            \
        } while (0)
        for (;;) {
                b.pos = bitpos;
                b.starved = false;
                switch (phase) {
                case 0: { // wrapper header, parsed atomically
                        size_t p = 0;
                        if (wrap == RW_GZIP) {
                                if (len >= 1 && buf[0] != 0x1f)
                                        FAILS(REF_ERR_MAGIC);
                                if (len >= 2 && buf[1] != 0x8b)
                                        FAILS(REF_ERR_MAGIC);
                                if (len >= 3 && buf[2] != 8)
                                        FAILS(REF_ERR_METHOD);
                                if (len < 10)
                                        return status = REF_NEED_MORE;
                                RefGzipHdr h;
                                h.present = true;
                                h.cm = buf[2];
                                h.flg = buf[3];
                                h.mtime = buf[4] | buf[5] << 8 | buf[6] << 16 | (uint32_t) buf[7] << 24;
                                h.xfl = buf[8];
                                h.os = buf[9];
                                p = 10;
                                if (h.flg & 4) {
                                        if (len < p + 2)
                                                return status = REF_NEED_MORE;
                                        size_t xlen = buf[p] | buf[p + 1] << 8;
                                        p += 2;
                                        if (len < p + xlen)
                                                return status = REF_NEED_MORE;
                                        h.has_extra = true;
                                        h.extra.assign(buf + p, buf + p + xlen);
                                        p += xlen;
                                }
                                if (h.flg & 8) {
                                        size_t q = p;
                                        while (q < len && buf[q])
                                                q++;
                                        if (q >= len)
                                                return status = REF_NEED_MORE;
                                        h.has_name = true;
                                        h.name.assign((const char *) buf + p, q - p);
                                        p = q + 1;
                                }
                                if (h.flg & 16) {
                                        size_t q = p;
                                        while (q < len && buf[q])
                                                q++;
                                        if (q >= len)
                                                return status = REF_NEED_MORE;
                                        h.has_comment = true;
                                        h.comment.assign((const char *) buf + p, q - p);
                                        p = q + 1;
                                }
                                if (h.flg & 2) {
                                        if (len < p + 2)
                                                return status = REF_NEED_MORE;
                                        h.has_hcrc = true;
                                        h.hcrc_stored = (uint16_t) (buf[p] | buf[p + 1] << 8);
                                        h.hcrc_computed = (uint16_t) (ref_crc32(0, buf, p) & 0xffff);
                                        p += 2;
                                }
                                h.len = p;
                                gz = h;
                        } else { // zlib
                                if (len >= 1 && (buf[0] & 0xf) != 8)
                                        FAILS(REF_ERR_METHOD);
                                if (len < 2)
                                        return status = REF_NEED_MORE;
                                if (((unsigned) buf[0] * 256 + buf[1]) % 31 != 0)
                                        FAILS(REF_ERR_FCHECK);
                                RefZlibHdr h;
                                h.present = true;
                                h.cmf = buf[0];
                                h.flg = buf[1];
                                p = 2;
                                if (h.flg & 0x20) {
                                        if (len < 6)
                                                return status = REF_NEED_MORE;
                                        h.fdict = true;
                                        h.dictid = (uint32_t) buf[2] << 24 | buf[3] << 16 | buf[4] << 8 | buf[5]; // MSB first (RFC 1950)
                                        p = 6;
                                }
                                h.len = p;
                                zl = h;
                                if (h.fdict && !dict) {
                                        bitpos = p * 8;
                                        phase = 1;
                                        return status = REF_NEED_DICT;
                                }
                        }
                        bitpos = p * 8;
                        phase = 1;
                        break;
                }
                case 1: { // block header
                        uint32_t fin = b.get(1), type = b.get(2);
                        if (b.starved)
                                return status = REF_NEED_MORE;
                        if (type == 3)
                                FAILS(REF_ERR_BTYPE);
                        RefBlock rb {};
                        rb.type = (int) type;
                        rb.bfinal = fin != 0;
                        rb.start_bit = bitpos;
                        rb.out_start = out.size();
                        if (type == 0) {
                                b.pos = (b.pos + 7) & ~7ULL;
                                uint32_t l = b.get(16), nl = b.get(16);
                                if (b.starved)
                                        return status = REF_NEED_MORE;
                                if ((l ^ nl) != 0xffff)
                                        FAILS(REF_ERR_STORED);
                                stored_left = l;
                                phase = 2;
                        } else if (type == 1) {
                                uint8_t lens[288];
                                for (int s = 0; s < 144; s++)
                                        lens[s] = 8;
                                for (int s = 144; s < 256; s++)
                                        lens[s] = 9;
                                for (int s = 256; s < 280; s++)
                                        lens[s] = 7;
                                for (int s = 280; s < 288; s++)
                                        lens[s] = 8;
                                construct(lcount, lsym, lens, 288);
                                uint8_t dl[32];
                                for (int s = 0; s < 32; s++)
                                        dl[s] = 5;
                                construct(dcount, dsym, dl, 32);
                                rb.max_code_len = 9;
                                phase = 3;
                        } else {
                                uint32_t hlit = b.get(5) + 257, hdist = b.get(5) + 1, hclen = b.get(4) + 4;
                                if (b.starved)
                                        return status = REF_NEED_MORE;
                                uint8_t cl[19];
                                memset(cl, 0, sizeof cl);
                                for (uint32_t k = 0; k < hclen; k++)
                                        cl[clen_order[k]] = (uint8_t) b.get(3);
                                if (b.starved)
                                        return status = REF_NEED_MORE;
                                uint16_t ccount[16], csym[19];
                                if (construct(ccount, csym, cl, 19) < 0)
                                        FAILS(REF_ERR_OVERSUB);
                                uint8_t lens[288 + 32 + 8];
                                memset(lens, 0, sizeof lens);
                                uint32_t idx = 0, total = hlit + hdist;
                                while (idx < total) {
                                        int sym = decode(b, ccount, csym);
                                        if (sym == -1)
                                                return status = REF_NEED_MORE;
                                        if (sym == -2)
                                                FAILS(REF_ERR_UNASSIGNED);
                                        if (sym < 16) {
                                                lens[idx++] = (uint8_t) sym;
                                        } else {
                                                uint32_t rep, val = 0;
                                                if (sym == 16) {
                                                        rep = 3 + b.get(2);
                                                        if (b.starved)
                                                                return status = REF_NEED_MORE;
                                                        if (idx == 0)
                                                                FAILS(REF_ERR_REPEAT);
                                                        val = lens[idx - 1];
                                                } else if (sym == 17)
                                                        rep = 3 + b.get(3);
                                                else
                                                        rep = 11 + b.get(7);
                                                if (b.starved)
                                                        return status = REF_NEED_MORE;
                                                if (idx + rep > total)
                                                        FAILS(REF_ERR_REPEAT);
                                                while (rep--)
                                                        lens[idx++] = (uint8_t) val;
                                        }
                                }
                                if (lens[256] == 0)
                                        FAILS(REF_ERR_NOEOB);
                                uint8_t ll[288], dl[32];
                                memset(ll, 0, sizeof ll);
                                memset(dl, 0, sizeof dl);
                                memcpy(ll, lens, hlit);
                                memcpy(dl, lens + hlit, hdist);
                                if (construct(lcount, lsym, ll, 288) < 0)
                                        FAILS(REF_ERR_OVERSUB);
                                if (construct(dcount, dsym, dl, 32) < 0)
                                        FAILS(REF_ERR_OVERSUB);
                                for (uint32_t k = 0; k < total; k++)
                                        if (lens[k] > rb.max_code_len)
                                                rb.max_code_len = lens[k];
                                phase = 3;
                        }
                        cur_final = rb.bfinal;
                        blocks.push_back(rb);
                        bitpos = b.pos;
                        break;
                }
                case 2: { // stored body (byte aligned)
                        size_t p = bitpos >> 3;
                        size_t avail = len > p ? len - p : 0;
                        size_t n = stored_left < avail ? stored_left : avail;
                        if (out.size() + n > out_limit)
                                FAILS(REF_ERR_OUTLIMIT);
                        out.insert(out.end(), buf + p, buf + p + n);
                        stored_left -= (uint32_t) n;
                        bitpos += (uint64_t) n * 8;
                        if (stored_left)
                                return status = REF_NEED_MORE;
                        blocks.back().end_bit = bitpos;
                        blocks.back().out_end = out.size();
                        phase = cur_final ? 4 : 1;
                        if (cur_final)
                                deflate_end_bit = bitpos;
                        break;
                }
                case 3: { // one symbol at a time, atomically
                        int sym = decode(b, lcount, lsym);
                        if (sym == -1)
                                return status = REF_NEED_MORE;
                        if (sym == -2)
                                FAILS(REF_ERR_UNASSIGNED);
                        RefBlock &rb = blocks.back();
                        if (sym < 256) {
                                if (out.size() + 1 > out_limit)
                                        FAILS(REF_ERR_OUTLIMIT);
                                out.push_back((uint8_t) sym);
                                rb.nsyms++;
                                bitpos = b.pos;
                        } else if (sym == 256) {
                                bitpos = b.pos;
                                rb.end_bit = bitpos;
                                rb.out_end = out.size();
                                phase = cur_final ? 4 : 1;
                                if (cur_final)
                                        deflate_end_bit = bitpos;
                        } else {
                                if (sym > 285)
                                        FAILS(REF_ERR_BADSYM);
                                uint32_t l = len_base[sym - 257] + b.get(len_extra[sym - 257]);
                                if (b.starved)
                                        return status = REF_NEED_MORE;
                                int ds = decode(b, dcount, dsym);
                                if (ds == -1)
                                        return status = REF_NEED_MORE;
                                if (ds == -2)
                                        FAILS(REF_ERR_UNASSIGNED);
                                if (ds > 29)
                                        FAILS(REF_ERR_BADSYM);
                                uint32_t d = dist_base[ds] + b.get(dist_extra[ds]);
                                if (b.starved)
                                        return status = REF_NEED_MORE;
                                if (d > out.size() + dict_len)
                                        FAILS(REF_ERR_DIST);
                                if (out.size() + l > out_limit)
                                        FAILS(REF_ERR_OUTLIMIT);
                                int64_t reach = (int64_t) out.size() - (int64_t) d;
                                if (reach < min_reach)
                                        min_reach = reach;
                                if (d > max_dist)
                                        max_dist = d;
                                if (d > rb.max_dist)
                                        rb.max_dist = d;
                                if (reach < floor && !floor_violated) {
                                        floor_violated = true;
                                        floor_viol_pos = out.size();
                                        floor_viol_dist = d;
                                }
                                for (uint32_t k = 0; k < l; k++) {
                                        int64_t src = (int64_t) out.size() - (int64_t) d;
                                        uint8_t v = src >= 0 ? out[(size_t) src] : dict[dict_len + src];
                                        out.push_back(v);
                                }
                                rb.nsyms++;
                                bitpos = b.pos;
                        }
                        break;
                }
                case 4: { // trailer
                        size_t p = (size_t) ((bitpos + 7) >> 3);
                        if (wrap == RW_RAW) {
                                end_byte = p;
                                phase = 5;
                                return status = REF_DONE;
                        }
                        if (wrap == RW_GZIP || wrap == RW_GZIP_TRL) {
                                if (len < p + 8)
                                        return status = REF_NEED_MORE;
                                trailer_crc = buf[p] | buf[p + 1] << 8 | buf[p + 2] << 16 | (uint32_t) buf[p + 3] << 24;
                                trailer_isize = buf[p + 4] | buf[p + 5] << 8 | buf[p + 6] << 16 | (uint32_t) buf[p + 7] << 24;
                                trailer_ok = trailer_crc == ref_crc32(0, out.data(), out.size()) && trailer_isize == (uint32_t) out.size();
                                end_byte = p + 8;
                        } else {
                                if (len < p + 4)
                                        return status = REF_NEED_MORE;
                                trailer_crc = (uint32_t) buf[p] << 24 | buf[p + 1] << 16 | buf[p + 2] << 8 | buf[p + 3];
                                trailer_ok = trailer_crc == ref_adler32(1, out.data(), out.size());
                                end_byte = p + 4;
                        }
                        bitpos = (uint64_t) end_byte * 8;
                        if (!trailer_ok && strict_trailer) {
                                phase = 6;
                                err_bit = (uint64_t) p * 8;
                                return status = REF_ERR_TRAILER;
                        }
                        phase = 5;
                        return status = REF_DONE;
                }
                default:
                        return status;
                }
        }
#undef FAILS
}

int ref_inflate_all(int wrap, const uint8_t *in, size_t len, std::vector<uint8_t> &out, RefInflate *ri_out, const uint8_t *dict,
                    size_t dict_len)
{
        RefInflate local;
        RefInflate &ri = ri_out ? *ri_out : local;
        ri.init(wrap, dict, dict_len);
        int s = ri.feed(in, len);
        out = ri.out;
        return s;
}

// ------------------------------------------------------------------ header producers
std::vector<uint8_t> ref_gzip_header(const GzFields &f)
{
        std::vector<uint8_t> h;
        uint8_t flg = (f.text ? 1 : 0) | (f.hcrc ? 2 : 0) | (f.has_extra ? 4 : 0) | (f.has_name ? 8 : 0) | (f.has_comment ? 16 : 0);
        h.push_back(0x1f);
        h.push_back(0x8b);
        h.push_back(8);
        h.push_back(flg);
        for (int i = 0; i < 4; i++)
                h.push_back((uint8_t) (f.mtime >> (8 * i)));
        h.push_back(f.xfl);
        h.push_back(f.os);
        if (f.has_extra) {
                h.push_back((uint8_t) (f.extra.size() & 0xff));
                h.push_back((uint8_t) (f.extra.size() >> 8));
                h.insert(h.end(), f.extra.begin(), f.extra.end());
        }
        if (f.has_name) {
                h.insert(h.end(), f.name.begin(), f.name.end());
                h.push_back(0);
        }
        if (f.has_comment) {
                h.insert(h.end(), f.comment.begin(), f.comment.end());
                h.push_back(0);
        }
        if (f.hcrc) {
                uint32_t c = ref_crc32_bitserial(0, h.data(), h.size());
                h.push_back((uint8_t) (c & 0xff));
                h.push_back((uint8_t) ((c >> 8) & 0xff));
        }
        return h;
}
std::vector<uint8_t> ref_zlib_header(unsigned cinfo, unsigned level, bool fdict, uint32_t dictid)
{
        std::vector<uint8_t> h;
        unsigned cmf = 8 | (cinfo << 4), flg = ((level & 3) << 6) | (fdict ? 0x20 : 0);
        unsigned rem = (cmf * 256 + flg) % 31;
        if (rem)
                flg += 31 - rem;
        h.push_back((uint8_t) cmf);
        h.push_back((uint8_t) flg);
        if (fdict)
                for (int i = 3; i >= 0; i--)
                        h.push_back((uint8_t) (dictid >> (8 * i)));
        return h;
}

// ------------------------------------------------------------------ self test
bool ref_selftest(std::string &why)
{
        const uint8_t *chk = (const uint8_t *) "123456789";
        if (ref_crc32_bitserial(0, chk, 9) != 0xCBF43926u || ref_crc32(0, chk, 9) != 0xCBF43926u) {
                why = "crc32 check value";
                return false;
        }
        if (ref_adler32(1, chk, 9) != 0x091E01DEu) {
                why = "adler32 check value";
                return false;
        }
        // GF(2^8)/0x11D: 2 is a generator of order 255; 0x80*2 = 0x1D
        if (ref_gf_mul(0x80, 2) != 0x1D || ref_gf_mul(7, 1) != 7 || ref_gf_mul(0, 9) != 0) {
                why = "gf mul";
                return false;
        }
        uint8_t x = 1;
        for (int i = 0; i < 255; i++)
                x = ref_gf_mul(x, 2);
        if (x != 1) {
                why = "gf order";
                return false;
        }
        // a fixed-huffman stream for "a" repeated: hand-checked vector from RFC-style encoders:
        // zlib.compress(b"hello hello hello hello\n") raw deflate
        static const uint8_t v1[] = { 0xcb, 0x48, 0xcd, 0xc9, 0xc9, 0x57, 0xc8, 0x40, 0x27, 0xb9, 0x00 };
        std::vector<uint8_t> o;
        int s = ref_inflate_all(RW_RAW, v1, sizeof v1, o);
        if (s != REF_DONE || o.size() != 24 || memcmp(o.data(), "hello hello hello hello\n", 24)) {
                why = "inflate fixed vector";
                return false;
        }
        // stored block
        static const uint8_t v2[] = { 0x01, 0x03, 0x00, 0xfc, 0xff, 'a', 'b', 'c' };
        s = ref_inflate_all(RW_RAW, v2, sizeof v2, o);
        if (s != REF_DONE || o.size() != 3 || memcmp(o.data(), "abc", 3)) {
                why = "inflate stored vector";
                return false;
        }
        // resumability: feed byte by byte
        RefInflate ri;
        ri.init(RW_RAW);
        for (size_t n = 1; n <= sizeof v1; n++)
                s = ri.feed(v1, n);
        if (s != REF_DONE || ri.out.size() != 24) {
                why = "inflate resumable";
                return false;
        }
        return true;
}
