// sess_hdr.cc — gzip/zlib header writers against a sink of plan-chosen size and header readers under
// input chunking with undersized field buffers (grow-and-retry): C19 (and C05 for these entry points).
#include "sim.h"
#include "igzip_lib.h"

uint32_t level_buf_size_for(int level, int cls, uint32_t extra); // sess_deflate.cc

namespace
{
struct HdrSession {
        const Json &plan;
        RunResult &rr;
        Hist &h;
        GuardCtx gc;
        int place = 0;
        uint64_t fill = 0;
        HdrSession(const Json &p, RunResult &r, Hist &hh) : plan(p), rr(r), h(hh) {}

        GzFields fields()
        {
                const Json &g = plan.at("gz");
                GzFields f;
                uint64_t fl = (uint64_t) g.geti("flags");
                f.text = fl & 1;
                f.hcrc = fl & 2;
                f.has_extra = fl & 4;
                f.has_name = fl & 8;
                f.has_comment = fl & 16;
                f.mtime = (uint32_t) g.geti("mtime");
                f.xfl = (uint8_t) g.geti("xfl");
                f.os = (uint8_t) g.geti("os");
                Rng gr((uint64_t) g.geti("s"), "gzfields");
                if (f.has_extra) {
                        f.extra.resize((uint64_t) g.geti("xlen") % 65536);
                        for (auto &b : f.extra)
                                b = (uint8_t) gr.u64();
                }
                // strings have no length limit in RFC 1952: plan values of 100000 and more stand for long ones (up to 80000 bytes, i.e.
                // beyond what a 16-bit offset can address); smaller values are taken modulo 3000 as before
                auto slen = [](int64_t v) { return (uint64_t) v >= 100000 ? ((uint64_t) v - 100000) % 80001 : (uint64_t) v % 3000; };
                if (f.has_name)
                        for (uint64_t k = slen(g.geti("nlen")); k > 0; k--)
                                f.name += (char) (1 + gr.below(255));
                if (f.has_comment)
                        for (uint64_t k = slen(g.geti("clen")); k > 0; k--)
                                f.comment += (char) (1 + gr.below(255));
                return f;
        }

        // ------------------------------------------------------------ writers
        void write_gzip()
        {
                GzFields f = fields();
                std::vector<uint8_t> want = ref_gzip_header(f);
                int64_t delta = plan.geti("delta");
                int64_t ao = (int64_t) want.size() + delta;
                if (ao < 0)
                        ao = 0;
                Slot *ss = g_arena.alloc(sizeof(struct isal_zstream), PLACE_END, "zstream", fill + 1, 16);
                Slot *sh = g_arena.alloc(sizeof(struct isal_gzip_header), PLACE_END, "gzip_header", fill + 2, 8);
                Slot *so = g_arena.alloc((size_t) ao, (plan.geti("oplace") & 1) ? PLACE_START : PLACE_END, "hdr_out", fill + 3, 1);
                // name/comment buffers: exact size (string + NUL) or with slack after the NUL
                uint32_t nslack = (uint32_t) ((uint64_t) plan.geti("nslack") % 5), cslack = (uint32_t) ((uint64_t) plan.geti("cslack") % 5);
                // "unterminated" variant: the declared name / comment buffer (possibly 0 bytes long) ends before any NUL.  That is outside
                // the property's domain for the bytes written (C19 assumes NUL-terminated strings), so only C05's clause is judged:
                // nothing beyond pointer + declared length may be read.
                int unterm = (int) (plan.geti("unterm") & 3);
                size_t nk = (unterm & 1) && f.has_name ? (size_t) ((uint64_t) plan.geti("untermk") % (f.name.size() + 1)) : 0;
                size_t ck = (unterm & 2) && f.has_comment ? (size_t) ((uint64_t) (plan.geti("untermk") >> 8) % (f.comment.size() + 1)) : 0;
                bool nun = (unterm & 1) && f.has_name, cun = (unterm & 2) && f.has_comment;
                Slot *sn = f.has_name ? g_arena.alloc(nun ? nk : f.name.size() + 1 + nslack, nun ? PLACE_END : place, "name_buf", 5, 1) : nullptr;
                Slot *sc = f.has_comment ? g_arena.alloc(cun ? ck : f.comment.size() + 1 + cslack, cun ? PLACE_END : place, "comment_buf", 6, 1) : nullptr;
                Slot *sx = f.has_extra ? g_arena.alloc(f.extra.size(), place, "extra_buf", 7, 1) : nullptr;
                if (!ss || !sh || !so || (f.has_name && !sn) || (f.has_comment && !sc) || (f.has_extra && !sx))
                        return;
                struct isal_zstream *st = (struct isal_zstream *) ss->data;
                struct isal_gzip_header *gh = (struct isal_gzip_header *) sh->data;
                isal_deflate_init(st);
                isal_gzip_header_init(gh);
                gh->text = f.text;
                gh->time = f.mtime;
                gh->xflags = f.xfl;
                gh->os = f.os;
                gh->hcrc = f.hcrc ? 1 + (uint32_t) ((uint64_t) plan.geti("hcrcval") % 1000) : 0;
                if (sn) {
                        memcpy(sn->data, f.name.c_str(), nun ? nk : f.name.size() + 1);
                        gh->name = (char *) sn->data;
                        gh->name_buf_len = (uint32_t) sn->len;
                }
                if (sc) {
                        memcpy(sc->data, f.comment.c_str(), cun ? ck : f.comment.size() + 1);
                        gh->comment = (char *) sc->data;
                        gh->comment_buf_len = (uint32_t) sc->len;
                }
                if (nun || cun) {
                        // enough room for whatever the writer decides to emit; judged for memory safety only
                        Slot *so2 = g_arena.alloc(want.size() + 16, PLACE_END, "hdr_out", fill + 3, 1);
                        if (!so2)
                                return;
                        st->next_out = so2->data;
                        st->avail_out = (uint32_t) so2->len;
                        uint32_t r2 = 0;
                        h.calls++;
                        if (GUARDED(gc, r2 = isal_write_gzip_header(st, gh))) {
                                report_fault(rr, h, gc.fi, strf("isal_write_gzip_header (name_buf_len %u, comment_buf_len %u, no NUL inside the declared length)", gh->name_buf_len, gh->comment_buf_len).c_str());
                                return;
                        }
                        h.rec("wgz_unterm", { (int64_t) nk, (int64_t) ck, r2 });
                        COUNT("fault.header_string_without_nul_in_declared_length");
                        if (!g_arena.canary_ok(so2) || !g_arena.canary_ok(ss) || !g_arena.canary_ok(sh))
                                rr.fail("C05.canary", "isal_write_gzip_header changed bytes outside its declared buffers");
                        return;
                }
                if (sx) {
                        memcpy(sx->data, f.extra.data(), f.extra.size());
                        gh->extra = sx->data;
                        gh->extra_len = (uint32_t) f.extra.size();
                        gh->extra_buf_len = (uint32_t) f.extra.size();
                }
                std::vector<uint8_t> before(so->data, so->data + ao);
                uint32_t to0 = (uint32_t) ((uint64_t) plan.geti("total_out0") % 100000);
                st->next_out = so->data;
                st->avail_out = (uint32_t) ao;
                st->total_out = to0;
                uint32_t ret = 0;
                h.calls++;
                if (GUARDED(gc, ret = isal_write_gzip_header(st, gh))) {
                        report_fault(rr, h, gc.fi, strf("isal_write_gzip_header (need %zu, avail_out %lld)", want.size(), (long long) ao).c_str());
                        return;
                }
                h.rec("wgz", { (int64_t) want.size(), ao, ret, st->avail_out, (int64_t) hash_bytes(so->data, ret == 0 ? std::min<size_t>((size_t) ao, want.size()) : 0) });
                h.sigmix(((uint64_t) plan.at("gz").geti("flags") << 8) ^ (delta < 0 ? 1 : delta == 0 ? 2 : 3) ^ (size_class(want.size()) << 16));
                if (delta < 0 || delta == 0)
                        h.unusual++;
                h.calls++; // count as two events so that single-call sessions are comparable with chunked readers
                if (!g_arena.canary_ok(so) || !g_arena.canary_ok(ss) || !g_arena.canary_ok(sh)) {
                        rr.fail("C05.canary", "isal_write_gzip_header changed bytes outside its declared buffers");
                        return;
                }
                if (ao >= (int64_t) want.size()) {
                        if (ret != 0) {
                                rr.fail("C19.gzip_write_refused", strf("output space %lld >= required %zu but isal_write_gzip_header returned %u", (long long) ao, want.size(), ret));
                                return;
                        }
                        if (st->next_out != so->data + want.size() || st->avail_out != (uint32_t) (ao - want.size()) || st->total_out != to0 + want.size()) {
                                rr.fail("C19.gzip_write_counters", strf("header of %zu bytes written but next_out %+ld avail_out %u total_out %+d", want.size(), (long) (st->next_out - so->data), st->avail_out, (int) (st->total_out - to0)));
                                return;
                        }
                        if (memcmp(so->data, want.data(), want.size())) {
                                size_t k = 0;
                                while (so->data[k] == want[k])
                                        k++;
                                rr.fail("C19.gzip_write_bytes", strf("gzip header differs from RFC 1952 layout at byte %zu of %zu: wrote %02x, reference %02x (flags %u)", k, want.size(), so->data[k], want[k], (unsigned) plan.at("gz").geti("flags")));
                                return;
                        }
                        if (memcmp(so->data + want.size(), before.data() + want.size(), (size_t) ao - want.size())) {
                                rr.fail("C19.gzip_write_extra", "bytes after the header in the output buffer were modified");
                                return;
                        }
                        COUNT("probe.gzip_header_written");
                } else {
                        COUNT("fault.hdr_out_too_small");
                        if (ret != want.size()) {
                                rr.fail("C19.gzip_write_required_size", strf("output space %lld < required %zu: returned %u instead of the required size", (long long) ao, want.size(), ret));
                                return;
                        }
                        if (st->next_out != so->data || st->avail_out != (uint32_t) ao || st->total_out != to0 || memcmp(so->data, before.data(), (size_t) ao)) {
                                rr.fail("C19.gzip_write_touched", "insufficient space reported but the stream or the output buffer was modified");
                                return;
                        }
                }
        }

        void write_zlib()
        {
                const Json &z = plan.at("zl");
                unsigned info = (unsigned) ((uint64_t) z.geti("info") % 8), level = (unsigned) ((uint64_t) z.geti("level") % 4);
                bool fdict = z.geti("fdict") != 0;
                uint32_t did = (uint32_t) z.geti("dictid");
                std::vector<uint8_t> want = ref_zlib_header(info, level, fdict, did);
                int64_t delta = plan.geti("delta");
                if (delta < -8)
                        delta = -(-delta % 8);
                int64_t ao = (int64_t) want.size() + delta;
                if (ao < 0)
                        ao = 0;
                Slot *ss = g_arena.alloc(sizeof(struct isal_zstream), PLACE_END, "zstream", fill + 1, 16);
                Slot *sh = g_arena.alloc(sizeof(struct isal_zlib_header), PLACE_END, "zlib_header", fill + 2, 4);
                Slot *so = g_arena.alloc((size_t) ao, (plan.geti("oplace") & 1) ? PLACE_START : PLACE_END, "hdr_out", fill + 3, 1);
                if (!ss || !sh || !so)
                        return;
                struct isal_zstream *st = (struct isal_zstream *) ss->data;
                struct isal_zlib_header *zh = (struct isal_zlib_header *) sh->data;
                isal_deflate_init(st);
                isal_zlib_header_init(zh);
                zh->info = info;
                zh->level = level;
                zh->dict_flag = fdict;
                zh->dict_id = did;
                std::vector<uint8_t> before(so->data, so->data + ao);
                st->next_out = so->data;
                st->avail_out = (uint32_t) ao;
                st->total_out = 7;
                uint32_t ret = 0;
                h.calls += 2;
                if (GUARDED(gc, ret = isal_write_zlib_header(st, zh))) {
                        report_fault(rr, h, gc.fi, "isal_write_zlib_header");
                        return;
                }
                h.rec("wzl", { (int64_t) want.size(), ao, ret, (int64_t) hash_bytes(so->data, ret == 0 ? std::min<size_t>((size_t) ao, want.size()) : 0) });
                h.sigmix((info << 8) ^ (level << 4) ^ (fdict ? 2 : 0) ^ (delta < 0 ? 1 : 0) ^ 0x77000);
                if (delta <= 0 || fdict)
                        h.unusual++;
                if (!g_arena.canary_ok(so) || !g_arena.canary_ok(ss) || !g_arena.canary_ok(sh)) {
                        rr.fail("C05.canary", "isal_write_zlib_header changed bytes outside its declared buffers");
                        return;
                }
                if (ao >= (int64_t) want.size()) {
                        if (ret != 0 || st->next_out != so->data + want.size() || st->avail_out != (uint32_t) (ao - want.size()) || st->total_out != 7 + want.size()) {
                                rr.fail("C19.zlib_write_counters", strf("zlib header (%zu bytes) into %lld bytes: ret %u next_out %+ld", want.size(), (long long) ao, ret, (long) (st->next_out - so->data)));
                                return;
                        }
                        // FCHECK: any value making CMF*256+FLG a multiple of 31 is correct (0 and 31 both can be)
                        if (so->data[0] == want[0] && (so->data[1] & 0xe0) == (want[1] & 0xe0) && ((unsigned) so->data[0] * 256 + so->data[1]) % 31 == 0)
                                want[1] = so->data[1];
                        if (memcmp(so->data, want.data(), want.size())) {
                                size_t k = 0;
                                while (so->data[k] == want[k])
                                        k++;
                                rr.fail(k >= 2 ? "C19.zlib_dictid_byte_order" : "C19.zlib_write_bytes", strf("zlib header differs from RFC 1950 layout at byte %zu: wrote %02x, reference %02x (info %u level %u fdict %d dictid %08x)", k, so->data[k], want[k], info, level, (int) fdict, did));
                                return;
                        }
                        COUNT("probe.zlib_header_written");
                } else {
                        COUNT("fault.hdr_out_too_small");
                        if (ret != want.size() || st->next_out != so->data || st->avail_out != (uint32_t) ao || st->total_out != 7 || memcmp(so->data, before.data(), (size_t) ao)) {
                                rr.fail("C19.zlib_write_touched", strf("insufficient space (%lld < %zu): ret %u, stream or buffer modified", (long long) ao, want.size(), ret));
                                return;
                        }
                }
        }

        // The wrapper header the codec writes itself (isal_deflate / isal_deflate_stateless with gzip_flag IGZIP_GZIP / IGZIP_ZLIB): the
        // same RFC byte layout, for every level and window size, whether it goes out in one piece or byte by byte.
        void codec_header()
        {
                const Json &c = plan.at("codec");
                int level = (int) ((uint64_t) c.geti("level") % 4), hbv = (int) ((uint64_t) c.geti("hb") % 16), api = (int) (c.geti("api") & 1);
                int hb = hbv < 9 ? 0 : hbv;
                bool zl = c.geti("zlib") != 0;
                Json ds = Json::obj();
                ds.set("k", c.geti("k")).set("n", (uint64_t) c.geti("n") % 3000).set("s", c.geti("s")).set("p", 300 + (uint64_t) c.geti("s") % 1300);
                std::vector<uint8_t> data = make_data(ds);
                if (data.size() > 4000)
                        data.resize(4000);
                Slot *ss = g_arena.alloc(sizeof(struct isal_zstream), PLACE_END, "zstream", fill + 1, 16);
                Slot *sl = g_arena.alloc(level_buf_size_for(level, (int) c.geti("lbc"), 0), PLACE_END, "level_buf", fill + 2, 16);
                Slot *si = g_arena.alloc(data.size(), place ? PLACE_START : PLACE_END, "src", 0, 1);
                if (!ss || !sl || !si)
                        return;
                memcpy(si->data, data.data(), data.size());
                struct isal_zstream *st = (struct isal_zstream *) ss->data;
                api ? isal_deflate_init(st) : isal_deflate_stateless_init(st);
                st->level = level;
                st->level_buf = sl->data;
                st->level_buf_size = (uint32_t) sl->len;
                st->gzip_flag = zl ? IGZIP_ZLIB : IGZIP_GZIP;
                st->hist_bits = hb;
                st->end_of_stream = 1;
                st->flush = NO_FLUSH;
                // now and then the application has first used the same stream to render a header of its own into a side buffer
                // (isal_write_zlib_header / isal_write_gzip_header): that is no reason for the codec to leave its own header out
                int prior_write = (int) ((uint64_t) c.geti("prior_write") % 3);
                if (prior_write) {
                        Slot *side = g_arena.alloc(64, PLACE_END, "side_hdr", fill + 9, 1);
                        Slot *sh = g_arena.alloc(prior_write == 1 ? sizeof(struct isal_zlib_header) : sizeof(struct isal_gzip_header), PLACE_END, "hdr_struct", fill + 10, 8);
                        if (!side || !sh)
                                return;
                        st->next_out = side->data;
                        st->avail_out = 64;
                        uint32_t wr = 0;
                        if (prior_write == 1) {
                                struct isal_zlib_header *zh = (struct isal_zlib_header *) sh->data;
                                isal_zlib_header_init(zh);
                                zh->info = 7;
                                if (GUARDED(gc, wr = isal_write_zlib_header(st, zh))) {
                                        report_fault(rr, h, gc.fi, "isal_write_zlib_header");
                                        return;
                                }
                        } else {
                                struct isal_gzip_header *gh = (struct isal_gzip_header *) sh->data;
                                isal_gzip_header_init(gh);
                                if (GUARDED(gc, wr = isal_write_gzip_header(st, gh))) {
                                        report_fault(rr, h, gc.fi, "isal_write_gzip_header");
                                        return;
                                }
                        }
                        h.rec("prior_hdr_write", { prior_write, wr });
                        st->total_out = 0;
                        COUNT("cfg.header_written_by_hand_before_codec_header");
                }
                st->next_in = si->data;
                st->avail_in = (uint32_t) data.size();
                std::vector<uint8_t> got;
                const Json &sp = plan.at("splits");
                size_t cap = data.size() + data.size() / 8 + 600;
                for (unsigned call = 0; call < 5000; call++) {
                        size_t ao = api == 0 ? cap : call < sp.a.size() ? (size_t) (1 + (uint64_t) sp.ai(call) % 3000) : cap;
                        Slot *so = g_arena.alloc(ao, (plan.geti("oplace") & 1) ? PLACE_START : PLACE_END, "out_chunk", fill + 3 + call, 1);
                        if (!so)
                                return;
                        st->next_out = so->data;
                        st->avail_out = (uint32_t) ao;
                        int ret = 0;
                        h.calls++;
                        if (GUARDED(gc, ret = api ? isal_deflate(st) : isal_deflate_stateless(st))) {
                                report_fault(rr, h, gc.fi, api ? "isal_deflate (wrapper header)" : "isal_deflate_stateless (wrapper header)");
                                return;
                        }
                        size_t left = st->avail_out;
                        size_t produced = left < ao ? ao - left : 0;
                        got.insert(got.end(), so->data, so->data + produced);
                        h.rec("codec", { (int64_t) call, (int64_t) ao, ret, (int64_t) produced });
                        if (!g_arena.canary_ok(so) || !g_arena.canary_ok(ss) || !g_arena.canary_ok(sl)) {
                                rr.fail("C05.canary", "compression call changed bytes outside its declared buffers");
                                return;
                        }
                        g_arena.release(so);
                        if (ret != COMP_OK)
                                return; // refusals and overflows are C07's and C10's subject
                        if (api == 0 || st->internal_state.state == ZSTATE_END)
                                break;
                }
                h.sigmix(((uint64_t) level << 8) ^ ((uint64_t) hb << 12) ^ (zl ? 1 : 0) ^ (api ? 2 : 0) ^ 0x66000);
                size_t hl = zl ? 2 : 10;
                if (got.size() < hl)
                        return;
                std::vector<uint8_t> want;
                if (zl) {
                        want = ref_zlib_header((unsigned) (eff_hist_bits(hb) - 8), level == 0 ? 0u : 1u, false, 0);
                        // FLEVEL is informational (RFC 1950: "not needed for decompression") and any correct FCHECK is right
                        if (got[0] == want[0] && (got[1] & 0x20) == 0 && ((unsigned) got[0] * 256 + got[1]) % 31 == 0)
                                want[1] = got[1];
                } else {
                        GzFields f;
                        f.xfl = got[8]; // XFL and OS carry no layout obligation
                        f.os = got[9];
                        want = ref_gzip_header(f);
                }
                if (want.size() != hl || memcmp(got.data(), want.data(), hl)) {
                        size_t k = 0;
                        while (k < hl && k < want.size() && got[k] == want[k])
                                k++;
                        rr.fail("C19.codec_header", strf("%s header written by %s (level %d, hist_bits %d) differs from the RFC layout at byte %zu: wrote %02x, reference %02x", zl ? "zlib" : "gzip", api ? "isal_deflate" : "isal_deflate_stateless", level, hb, k, got[k], k < want.size() ? want[k] : 0));
                        return;
                }
                // the announced window has to cover what the body uses
                RefInflate ref;
                ref.init(zl ? RW_ZLIB : RW_GZIP);
                if (ref.feed(got.data(), got.size()) == REF_DONE && zl && ref.max_dist > (1u << ((got[0] >> 4) + 8)))
                        rr.fail("C19.codec_header", strf("zlib header announces a %u-byte window, the body uses distance %u", 1u << ((got[0] >> 4) + 8), ref.max_dist));
                COUNT("probe.codec_header_checked");
        }

        // ------------------------------------------------------------ readers
        // bytes: header followed by some payload; fed in chunks
        // A state that was used for something else, abandoned half way and then reset must behave like a fresh one (C15) - here: for
        // the stand-alone header readers.  prior 1: a gzip header parse abandoned inside the file name; 2: a stored block abandoned in
        // its payload; 3: a zlib header parse abandoned inside DICTID.
        void dirty_then_reset(struct inflate_state *st)
        {
                int prior = (int) ((uint64_t) plan.geti("prior") % 4);
                if (!prior)
                        return;
                static const uint8_t gz[] = { 0x1f, 0x8b, 8, 8, 1, 2, 3, 4, 0, 0xff, 'a', 'b', 'c', 'd', 'e' };
                static const uint8_t sb[] = { 0x00, 0x10, 0x00, 0xef, 0xff, 'p', 'q', 'r', 's', 't' };
                static const uint8_t zl[] = { 0x78, 0x20, 0x12, 0x34 };
                const uint8_t *src = prior == 1 ? gz : prior == 2 ? sb : zl;
                size_t n = prior == 1 ? sizeof gz : prior == 2 ? sizeof sb : sizeof zl;
                Slot *si = g_arena.alloc(n, place, "prior_in", 0, 1), *so = g_arena.alloc(32, PLACE_END, "prior_out", fill + 40, 1);
                Slot *sg = g_arena.alloc(sizeof(struct isal_gzip_header), PLACE_END, "prior_gzip_header", fill + 41, 8), *snm = g_arena.alloc(16, PLACE_END, "prior_name", fill + 42, 1);
                if (!si || !so || !sg || !snm)
                        return;
                memcpy(si->data, src, n);
                if (GUARDED(gc, {
                            st->next_in = si->data;
                            st->avail_in = (uint32_t) n;
                            st->next_out = so->data;
                            st->avail_out = 32;
                            if (prior == 1) {
                                    struct isal_gzip_header *g = (struct isal_gzip_header *) sg->data;
                                    isal_gzip_header_init(g);
                                    g->name = (char *) snm->data;
                                    g->name_buf_len = 16;
                                    isal_read_gzip_header(st, g);
                            } else if (prior == 2) {
                                    st->crc_flag = ISAL_DEFLATE;
                                    isal_inflate(st);
                            } else {
                                    struct isal_zlib_header z;
                                    isal_zlib_header_init(&z);
                                    isal_read_zlib_header(st, &z);
                            }
                            isal_inflate_reset(st);
                    })) {
                        report_fault(rr, h, gc.fi, "abandoned use of the state followed by isal_inflate_reset");
                        return;
                }
                st->crc_flag = ISAL_DEFLATE;
                COUNT("mem.header_reader_on_reset_state");
                g_arena.release(si);
                g_arena.release(so);
                g_arena.release(sg);
                g_arena.release(snm);
        }

        void read_gzip(const std::vector<uint8_t> &bytes, bool garbage)
        {
                RefInflate ref;
                ref.init(RW_GZIP);
                int rs = ref.feed(bytes.data(), bytes.size()); // parses the header atomically if complete
                bool ref_hdr_ok = ref.gz.present;
                Slot *ss = g_arena.alloc(sizeof(struct inflate_state), PLACE_END, "inflate_state", fill + 1, 8);
                Slot *sh = g_arena.alloc(sizeof(struct isal_gzip_header), PLACE_END, "gzip_header", fill + 2, 8);
                if (!ss || !sh)
                        return;
                struct inflate_state *st = (struct inflate_state *) ss->data;
                struct isal_gzip_header *gh = (struct isal_gzip_header *) sh->data;
                isal_inflate_init(st);
                dirty_then_reset(st);
                if (rr.violated())
                        return;
                isal_gzip_header_init(gh);
                const Json &bf = plan.at("bufs");
                // initial field buffers: size >=0, or -1 for NULL (field disregarded)
                int64_t nsz = bf.ai(0), csz = bf.ai(1), xsz = bf.ai(2);
                Slot *sn = nullptr, *sc = nullptr, *sx = nullptr;
                auto setbuf = [&](Slot *&slot, int64_t sz, const char *label, Slot *old, size_t keep) {
                        slot = g_arena.alloc((size_t) sz, place, label, fill + 9, 1);
                        if (slot && old && keep)
                                memcpy(slot->data, old->data, keep); // realloc semantics: content preserved
                        if (old)
                                g_arena.release(old);
                        return slot != nullptr;
                };
                if (nsz >= 0) {
                        if (!setbuf(sn, nsz >= 100000 ? (nsz - 100000) % 90000 : nsz % 4000, "name_buf", nullptr, 0))
                                return;
                        gh->name = (char *) sn->data;
                        gh->name_buf_len = (uint32_t) sn->len;
                }
                if (csz >= 0) {
                        if (!setbuf(sc, csz >= 100000 ? (csz - 100000) % 90000 : csz % 4000, "comment_buf", nullptr, 0))
                                return;
                        gh->comment = (char *) sc->data;
                        gh->comment_buf_len = (uint32_t) sc->len;
                }
                if (xsz >= 0) {
                        if (!setbuf(sx, xsz % 70000, "extra_buf", nullptr, 0))
                                return;
                        gh->extra = sx->data;
                        gh->extra_buf_len = (uint32_t) sx->len;
                }
                const Json &sp = plan.at("splits");
                size_t fed = 0, si = 0;
                Slot *s_in = nullptr;
                int ret = ISAL_END_INPUT;
                uint32_t calls = 0, grows = 0;
                st->avail_in = 0;
                st->next_in = nullptr;
                int final_ret = -99;
                while (calls < 20000) {
                        uint32_t pending = st->avail_in;
                        uint32_t feed = 0;
                        if (ret == ISAL_END_INPUT || calls == 0) {
                                if (fed == bytes.size() && calls > 0) {
                                        final_ret = ISAL_END_INPUT;
                                        break; // ran out of bytes: truncated header
                                }
                                feed = si < sp.a.size() ? (uint32_t) ((uint64_t) sp.a[si++].i % 70000) : (uint32_t) bytes.size();
                                if (feed > bytes.size() - fed)
                                        feed = (uint32_t) (bytes.size() - fed);
                        }
                        if (feed || !s_in) {
                                Slot *ns = g_arena.alloc(pending + feed, place, "hdr_in", 0, 1);
                                if (!ns)
                                        return;
                                if (pending)
                                        memcpy(ns->data, st->next_in, pending);
                                memcpy(ns->data + pending, bytes.data() + fed, feed);
                                g_arena.release(s_in);
                                s_in = ns;
                                st->next_in = ns->data;
                                st->avail_in = pending + feed;
                                fed += feed;
                        }
                        uint32_t ai0 = st->avail_in;
                        calls++;
                        h.calls++;
                        if (GUARDED(gc, ret = isal_read_gzip_header(st, gh))) {
                                report_fault(rr, h, gc.fi, strf("isal_read_gzip_header call %u (fed %zu of %zu, block_state %d)", calls, fed, bytes.size(), st->block_state).c_str());
                                return;
                        }
                        h.rec("rgz", { feed, ai0, ret, st->avail_in, st->block_state, gh->flags });
                        h.sigmix(((uint64_t) (ret & 0xff) << 8) ^ (uint64_t) st->block_state ^ (size_class(feed) << 16));
                        if (feed < 10 || ret > 1)
                                h.unusual++;
                        if (!g_arena.canary_ok(ss) || !g_arena.canary_ok(sh) || !g_arena.canary_ok(sn) || !g_arena.canary_ok(sc) || !g_arena.canary_ok(sx)) {
                                rr.fail("C05.canary", "isal_read_gzip_header wrote outside a declared buffer");
                                return;
                        }
                        if (st->block_state >= ISAL_GZIP_EXTRA_LEN && st->block_state <= ISAL_GZIP_HCRC && ret == ISAL_END_INPUT)
                                COUNT("probe.gzip_hdr_resume");
                        if (st->avail_in == 0 && s_in) {
                                g_arena.release(s_in); // consumed chunk is unmapped at once
                                s_in = nullptr;
                                COUNT("mem.release_on_consume");
                        }
                        if (ret == ISAL_END_INPUT) {
                                if (st->avail_in != 0) {
                                        rr.fail("C19.read_end_input", strf("ISAL_END_INPUT returned with %u input bytes still unconsumed", st->avail_in));
                                        return;
                                }
                                continue;
                        }
                        if (ret == ISAL_NAME_OVERFLOW || ret == ISAL_COMMENT_OVERFLOW || ret == ISAL_EXTRA_OVERFLOW) {
                                COUNT("fault.hdr_buf_too_small");
                                grows++;
                                uint32_t inc = 1 + (uint32_t) ((uint64_t) plan.geti("grow") % 600);
                                if (grows > 40)
                                        inc += grows * 8; // keep the number of rounds bounded for 64 KiB extra fields
                                if (ret == ISAL_NAME_OVERFLOW) {
                                        if (!sn) {
                                                rr.fail("C19.read_overflow_null", "NAME_OVERFLOW with a NULL name buffer");
                                                return;
                                        }
                                        Slot *old = sn;
                                        if (!setbuf(sn, old->len + inc, "name_buf", old, old->len))
                                                return;
                                        gh->name = (char *) sn->data;
                                        gh->name_buf_len = (uint32_t) sn->len;
                                } else if (ret == ISAL_COMMENT_OVERFLOW) {
                                        if (!sc) {
                                                rr.fail("C19.read_overflow_null", "COMMENT_OVERFLOW with a NULL comment buffer");
                                                return;
                                        }
                                        Slot *old = sc;
                                        if (!setbuf(sc, old->len + inc, "comment_buf", old, old->len))
                                                return;
                                        gh->comment = (char *) sc->data;
                                        gh->comment_buf_len = (uint32_t) sc->len;
                                } else {
                                        if (!sx) {
                                                rr.fail("C19.read_overflow_null", "EXTRA_OVERFLOW with a NULL extra buffer");
                                                return;
                                        }
                                        Slot *old = sx;
                                        if (!setbuf(sx, old->len + inc + (gh->extra_len > old->len ? (gh->extra_len - old->len) / 2 : 0), "extra_buf", old, old->len))
                                                return;
                                        gh->extra = sx->data;
                                        gh->extra_buf_len = (uint32_t) sx->len;
                                }
                                if (grows > 5000) {
                                        rr.fail("C19.read_overflow_loop", "more than 5000 overflow/grow rounds");
                                        return;
                                }
                                continue;
                        }
                        final_ret = ret;
                        break;
                }
                size_t consumed_total = fed - st->avail_in;
                h.rec("rgz_end", { final_ret, (int64_t) consumed_total, rs, (int64_t) ref.gz.len });
                if (!(final_ret == 0 || final_ret == ISAL_END_INPUT || final_ret == ISAL_INVALID_WRAPPER || final_ret == ISAL_UNSUPPORTED_METHOD || final_ret == ISAL_INCORRECT_CHECKSUM)) {
                        rr.fail("C19.read_status", strf("isal_read_gzip_header ended with undocumented status %d", final_ret));
                        return;
                }
                if (garbage) {
                        COUNT("xport.garbage");
                        // documented status and no fault is all that is asked; but acceptance must agree with the reference
                        if (final_ret == 0 && (!ref_hdr_ok || ref.status == REF_ERR_MAGIC || ref.status == REF_ERR_METHOD)) {
                                rr.fail("C19.read_garbage_accepted", "arbitrary bytes accepted as a gzip header although the reference parser rejects them");
                                return;
                        }
                        if (final_ret != 0)
                                return;
                }
                if (!ref_hdr_ok) {
                        // truncated or invalid header: the reader must not claim success
                        if (final_ret == 0)
                                rr.fail("C19.read_truncated_accepted", strf("header is incomplete/invalid for the reference parser (%s) but the reader returned success", ref_status_name(ref.status)));
                        return;
                }
                const RefGzipHdr &g = ref.gz;
                bool crc_bad = g.has_hcrc && g.hcrc_stored != g.hcrc_computed;
                if (crc_bad) {
                        if (final_ret != ISAL_INCORRECT_CHECKSUM)
                                rr.fail("C19.read_hcrc_verdict", strf("header CRC16 stored %04x computed %04x but reader returned %d", g.hcrc_stored, g.hcrc_computed, final_ret));
                        else
                                COUNT("probe.hcrc_mismatch_detected");
                        return;
                }
                if (final_ret != 0) {
                        rr.fail("C19.read_valid_rejected", strf("valid gzip header (%zu bytes, flags %02x) fed in %u calls with %u grow rounds: reader returned %d", g.len, g.flg, calls, grows, final_ret));
                        return;
                }
                if (consumed_total != g.len) {
                        rr.fail("C19.read_position", strf("reader stopped after %zu bytes, header is %zu bytes long", consumed_total, g.len));
                        return;
                }
                if (gh->text != (uint32_t) (g.flg & 1) || gh->time != g.mtime || gh->xflags != g.xfl || gh->os != g.os) {
                        rr.fail("C19.read_fields", strf("fixed fields differ: text %u/%u time %08x/%08x xfl %u/%u os %u/%u", gh->text, g.flg & 1, gh->time, g.mtime, gh->xflags, g.xfl, gh->os, g.os));
                        return;
                }
                if (g.has_extra) {
                        if (gh->extra_len != g.extra.size() || (sx && (sx->len < g.extra.size() || memcmp(sx->data, g.extra.data(), g.extra.size())))) {
                                rr.fail("C19.read_extra", strf("extra field: length %u (reference %zu) or content differs after %u grow rounds", gh->extra_len, g.extra.size(), grows));
                                return;
                        }
                } else if (gh->extra_len != 0) {
                        rr.fail("C19.read_extra", "extra_len non-zero for a header without FEXTRA");
                        return;
                }
                if (g.has_name && sn && (sn->len < g.name.size() + 1 || strnlen((char *) sn->data, sn->len) != g.name.size() || memcmp(sn->data, g.name.c_str(), g.name.size() + 1))) {
                        rr.fail("C19.read_name", strf("name differs from the reference parser's (%zu bytes) after %u grow rounds", g.name.size(), grows));
                        return;
                }
                if (g.has_comment && sc && (sc->len < g.comment.size() + 1 || strnlen((char *) sc->data, sc->len) != g.comment.size() || memcmp(sc->data, g.comment.c_str(), g.comment.size() + 1))) {
                        rr.fail("C19.read_comment", strf("comment differs from the reference parser's (%zu bytes) after %u grow rounds", g.comment.size(), grows));
                        return;
                }
                if (grows)
                        COUNT("probe.hdr_overflow_resumed");
                COUNT("probe.gzip_header_read_ok");
                body_follows(st, false, false);
        }

        // "stop exactly at the first byte of compressed data": after a completed header read the same state must take the
        // dictionary (FDICT) and then the deflate data, the way a caller of the stand-alone readers continues
        void body_follows(struct inflate_state *st, bool zlib, bool fdict)
        {
                static const uint8_t body[10] = { 0x01, 0x05, 0x00, 0xfa, 0xff, 'h', 'e', 'l', 'l', 'o' };
                Slot *sb = g_arena.alloc(sizeof body, place, "body_in", 0, 1), *so = g_arena.alloc(16, PLACE_END, "body_out", fill + 9, 1);
                Slot *sd = fdict ? g_arena.alloc(24, PLACE_END, "dict", 0, 1) : nullptr;
                if (!sb || !so || (fdict && !sd))
                        return;
                memcpy(sb->data, body, sizeof body);
                int dr = 0, ret = 0;
                if (GUARDED(gc, {
                            if (fdict)
                                    dr = isal_inflate_set_dict(st, sd->data, 24);
                            st->crc_flag = zlib ? ISAL_ZLIB_NO_HDR : ISAL_GZIP_NO_HDR;
                            st->next_in = sb->data;
                            st->avail_in = sizeof body;
                            st->next_out = so->data;
                            st->avail_out = 16;
                            ret = dr ? 0 : isal_inflate(st);
                    })) {
                        report_fault(rr, h, gc.fi, "isal_inflate after a stand-alone header read");
                        return;
                }
                h.rec("hdr_body", { dr, ret, st->avail_out, st->block_state });
                COUNT("probe.body_after_standalone_header");
                if (dr) {
                        rr.fail("C19.read_state", strf("after a completed %s header read (FDICT set) isal_inflate_set_dict returned %d (block_state %d)", zlib ? "zlib" : "gzip", dr, st->block_state));
                        return;
                }
                if (ret != ISAL_DECOMP_OK || st->avail_out != 11 || memcmp(so->data, "hello", 5) || st->block_state != ISAL_BLOCK_FINISH)
                        rr.fail("C19.read_state", strf("after a completed %s header read the deflate data that follows is not decoded: isal_inflate returned %d, %u bytes out, block_state %d", zlib ? "zlib" : "gzip", ret, 16 - st->avail_out, st->block_state));
        }

        void read_zlib(const std::vector<uint8_t> &bytes, bool garbage)
        {
                RefInflate ref;
                ref.init(RW_ZLIB);
                ref.feed(bytes.data(), bytes.size());
                Slot *ss = g_arena.alloc(sizeof(struct inflate_state), PLACE_END, "inflate_state", fill + 1, 8);
                Slot *sh = g_arena.alloc(sizeof(struct isal_zlib_header), PLACE_END, "zlib_header", fill + 2, 4);
                if (!ss || !sh)
                        return;
                struct inflate_state *st = (struct inflate_state *) ss->data;
                struct isal_zlib_header *zh = (struct isal_zlib_header *) sh->data;
                isal_inflate_init(st);
                dirty_then_reset(st);
                if (rr.violated())
                        return;
                isal_zlib_header_init(zh);
                const Json &sp = plan.at("splits");
                size_t fed = 0, si = 0;
                int ret = ISAL_END_INPUT, final_ret = -99;
                uint32_t calls = 0;
                Slot *s_in = nullptr;
                while (calls < 100) {
                        if (fed == bytes.size() && calls > 0) {
                                final_ret = ISAL_END_INPUT;
                                break;
                        }
                        uint32_t feed = si < sp.a.size() ? (uint32_t) ((uint64_t) sp.a[si++].i % 64) : (uint32_t) bytes.size();
                        if (feed > bytes.size() - fed)
                                feed = (uint32_t) (bytes.size() - fed);
                        Slot *ns = g_arena.alloc(feed, place, "hdr_in", 0, 1);
                        if (!ns)
                                return;
                        memcpy(ns->data, bytes.data() + fed, feed);
                        g_arena.release(s_in);
                        s_in = ns;
                        st->next_in = ns->data;
                        st->avail_in = feed;
                        fed += feed;
                        calls++;
                        h.calls++;
                        if (GUARDED(gc, ret = isal_read_zlib_header(st, zh))) {
                                report_fault(rr, h, gc.fi, "isal_read_zlib_header");
                                return;
                        }
                        h.rec("rzl", { feed, ret, st->avail_in, st->block_state });
                        h.sigmix(((uint64_t) (ret & 0xff) << 8) ^ (uint64_t) st->block_state ^ (size_class(feed) << 16) ^ 0x5500000);
                        if (feed < 6)
                                h.unusual++;
                        if (!g_arena.canary_ok(ss) || !g_arena.canary_ok(sh)) {
                                rr.fail("C05.canary", "isal_read_zlib_header wrote outside a declared buffer");
                                return;
                        }
                        if (st->block_state == ISAL_ZLIB_DICT)
                                COUNT("probe.zlib_dict_resume");
                        if (ret == ISAL_END_INPUT)
                                continue;
                        final_ret = ret;
                        break;
                }
                size_t consumed_total = fed - st->avail_in;
                if (!(final_ret == 0 || final_ret == ISAL_END_INPUT || final_ret == ISAL_UNSUPPORTED_METHOD || final_ret == ISAL_INCORRECT_CHECKSUM)) {
                        rr.fail("C19.read_status", strf("isal_read_zlib_header ended with undocumented status %d", final_ret));
                        return;
                }
                if (!ref.zl.present) {
                        if (final_ret == 0)
                                rr.fail(garbage ? "C19.read_garbage_accepted" : "C19.read_truncated_accepted", strf("reference parser: %s, reader returned success", ref_status_name(ref.status)));
                        return;
                }
                if (garbage)
                        COUNT("xport.garbage");
                if (final_ret != 0) {
                        rr.fail("C19.read_valid_rejected", strf("valid zlib header (%zu bytes) in %u calls: reader returned %d", ref.zl.len, calls, final_ret));
                        return;
                }
                if (consumed_total != ref.zl.len) {
                        rr.fail("C19.read_position", strf("reader stopped after %zu bytes, zlib header is %zu bytes long", consumed_total, ref.zl.len));
                        return;
                }
                if (zh->info != (uint32_t) (ref.zl.cmf >> 4) || zh->level != (uint32_t) (ref.zl.flg >> 6) || zh->dict_flag != (uint32_t) ref.zl.fdict) {
                        rr.fail("C19.read_fields", strf("zlib fields differ: info %u/%u level %u/%u dict_flag %u/%u", zh->info, ref.zl.cmf >> 4, zh->level, ref.zl.flg >> 6, zh->dict_flag, (unsigned) ref.zl.fdict));
                        return;
                }
                if (ref.zl.fdict && zh->dict_id != ref.zl.dictid) {
                        rr.fail("C19.zlib_dictid_byte_order", strf("DICTID bytes %02x %02x %02x %02x: RFC 1950 value %08x, reader returned %08x", bytes[2], bytes[3], bytes[4], bytes[5], ref.zl.dictid, zh->dict_id));
                        return;
                }
                COUNT("probe.zlib_header_read_ok");
                body_follows(st, true, ref.zl.fdict);
        }

        void run()
        {
                const Json &m = plan.at("mem");
                place = (int) (m.geti("place") & 1);
                fill = (uint64_t) m.geti("fill");
                int what = (int) ((uint64_t) plan.geti("what") % 7);
                if (what == 6)
                        return codec_header();
                if (what == 0)
                        return write_gzip();
                if (what == 1)
                        return write_zlib();
                Rng pr((uint64_t) plan.geti("ps"), "payload");
                std::vector<uint8_t> bytes;
                bool garbage = false;
                if (what == 2 || what == 4) {
                        GzFields f = fields();
                        if (f.extra.size() > 3000 && !plan.geti("bigextra"))
                                f.extra.resize(f.extra.size() % 3000);
                        bytes = ref_gzip_header(f);
                        int corrupt = (int) plan.geti("corrupt");
                        if (what == 4) { // damaged / arbitrary bytes
                                garbage = true;
                                if (corrupt & 1)
                                        for (auto &b : bytes)
                                                b = (uint8_t) pr.u64();
                                else if (!bytes.empty())
                                        bytes[pr.below(std::min<size_t>(bytes.size(), 12))] ^= (uint8_t) (1 + pr.below(255));
                        } else if (corrupt == 7 && f.hcrc)
                                bytes[bytes.size() - 1 - pr.below(2)] ^= (uint8_t) (1 + pr.below(255)); // header CRC16 mismatch
                        for (uint64_t k = (uint64_t) plan.geti("tailbytes") % 40; k > 0; k--)
                                bytes.push_back((uint8_t) pr.u64());
                        uint64_t trunc = (uint64_t) plan.geti("trunc");
                        if (trunc && !bytes.empty()) {
                                bytes.resize(trunc % bytes.size());
                                COUNT("xport.truncate");
                        }
                        return read_gzip(bytes, garbage);
                }
                const Json &z = plan.at("zl");
                bytes = ref_zlib_header((unsigned) ((uint64_t) z.geti("info") % 8), (unsigned) ((uint64_t) z.geti("level") % 4), z.geti("fdict") != 0, (uint32_t) z.geti("dictid"));
                if (what == 5) {
                        garbage = true;
                        for (auto &b : bytes)
                                b = (uint8_t) pr.u64();
                }
                for (uint64_t k = (uint64_t) plan.geti("tailbytes") % 40; k > 0; k--)
                        bytes.push_back((uint8_t) pr.u64());
                uint64_t trunc = (uint64_t) plan.geti("trunc");
                if (trunc && !bytes.empty()) {
                        bytes.resize(trunc % bytes.size());
                        COUNT("xport.truncate");
                }
                read_zlib(bytes, garbage);
        }
};
} // namespace

static void exec_hdr(const Json &plan, RunResult &rr, Hist &h)
{
        HdrSession s(plan, rr, h);
        s.run();
        // a header function that reads or writes outside the buffers its arguments declare fails C05 and C19's own last clause alike
        if (rr.violated() && rr.oracle.compare(0, 4, "C05.") == 0)
                rr.alt = "C19";
}

static Json gen_hdr(Rng &r0, const std::string &focus, int tier)
{
        Rng r(r0.u64(), "hdr.plan");
        Json p = Json::obj();
        p.set("prof", "hdr").set("focus", focus);
        static const int whats[] = { 0, 0, 1, 2, 2, 2, 2, 3, 3, 4, 5, 6 };
        int what = r.pick(whats);
        p.set("what", what);
        Json gz = Json::obj();
        static const uint32_t xl[] = { 0, 1, 2, 255, 256, 65535, 65534, 1000 };
        static const uint32_t sl[] = { 0, 1, 2, 7, 8, 9, 255, 256, 2999 };
        static const uint32_t edge32[] = { 0, 1, 0xffffffffu, 0x80000000u, 0x00010000u, 0x000000ffu, 0xff000000u };
        gz.set("flags", r.chance(1, 8) ? 0 : r.chance(1, 4) ? 31 : (int) r.below(32)).set("mtime", r.chance(1, 2) ? 0x11223344u : r.chance(1, 3) ? r.pick(edge32) : r.u32()).set("xfl", r.chance(1, 6) ? (r.chance(1, 2) ? 0 : 255) : (int) r.below(256)).set("os", r.chance(1, 6) ? (r.chance(1, 2) ? 0 : 255) : (int) r.below(256)).set("s", r.u64() >> 20);
        gz.set("xlen", r.chance(1, 2) ? r.pick(xl) : (uint32_t) r.logsize(65535)).set("nlen", r.chance(1, 2) ? r.pick(sl) : (uint32_t) r.logsize(2999)).set("clen", r.chance(1, 2) ? r.pick(sl) : (uint32_t) r.logsize(2999));
        bool longstr = r.chance(1, 12);
        if (longstr) { // a name or comment longer than 64 KiB, read in pieces that end beyond offset 65535 and/or into buffers that overflow there
                static const uint32_t ll[] = { 65535, 65536, 65537, 66000, 70000, 80000 };
                gz.set(r.chance(1, 2) ? "nlen" : "clen", (int64_t) 100000 + r.pick(ll));
                gz.set("flags", (int) (gz.geti("flags") | 8 | 16));
        }
        p.set("gz", gz);
        Json zl = Json::obj();
        zl.set("info", (int) r.below(8)).set("level", (int) r.below(4)).set("fdict", (int) r.below(2)).set("dictid", r.chance(1, 2) ? 0x11223344u : r.chance(1, 2) ? r.pick(edge32) : r.u32());
        p.set("zl", zl);
        Json cd = Json::obj();
        cd.set("level", (int) r.below(4)).set("hb", (int) (r.chance(1, 4) ? 0 : 9 + r.below(7))).set("api", (int) r.below(2)).set("zlib", (int) r.chance(2, 3)).set("k", (int) r.below(DK_NKINDS)).set("n", (int) r.logsize(2999)).set("s", r.u64() >> 20).set("lbc", (int) r.below(5)).set("prior_write", r.chance(1, 4) ? (int) (1 + r.below(2)) : 0);
        p.set("codec", cd);
        int64_t delta;
        uint64_t c = r.below(10);
        delta = c < 5 ? r.range(-12, 8) : c < 7 ? -(int64_t) r.logsize(70000) : (int64_t) r.logsize(300);
        p.set("delta", delta).set("oplace", (int) r.below(2)).set("nslack", (int) r.below(5)).set("cslack", (int) r.below(5)).set("hcrcval", (int) r.below(1000)).set("total_out0", (int) r.below(100000));
        Json sp = Json::arr();
        int mode = (int) r.below(4);
        for (int k = (int) r.below(mode == 0 ? 3 : 60); k > 0; k--)
                sp.push(mode == 1 ? 1 : mode == 2 ? (int) (1 + r.below(12)) : (int) r.logsize(3000));
        if (longstr) {
                sp = Json::arr();
                for (int k = (int) r.below(6); k > 0; k--)
                        sp.push((int) (r.chance(1, 2) ? 60000 + r.below(9000) : r.logsize(69999)));
        }
        p.set("splits", sp);
        Json bf = Json::arr();
        for (int k = 0; k < 3; k++) {
                uint64_t q = r.below(8);
                bf.push(q == 0 ? -1 : q < 4 ? (int64_t) r.below(12) : q < 6 ? (int64_t) r.logsize(k == 2 ? 66000 : 3200) : (int64_t) (k == 2 ? 66000 : 3200));
        }
        if (longstr)
                for (int k = 0; k < 2; k++)
                        if (r.chance(2, 3))
                                bf.a[k] = Json((int64_t) (100000 + (r.chance(1, 2) ? 60000 + r.below(25000) : r.below(90000))));
        p.set("bufs", bf).set("grow", (int) (r.chance(1, 2) ? r.below(4) : r.below(600))).set("ps", r.u64() >> 20).set("tailbytes", (int) r.below(40));
        p.set("prior", r.chance(1, 3) ? (int) (1 + r.below(3)) : 0);
        p.set("unterm", r.chance(1, 8) ? (int) (1 + r.below(3)) : 0).set("untermk", r.chance(1, 2) ? 0 : (int64_t) r.below(1 << 16));
        p.set("corrupt", (int) r.below(8)).set("trunc", r.chance(1, 8) ? (int64_t) (1 + r.below(4000)) : 0).set("bigextra", (int) r.chance(1, 6));
        Json mem = Json::obj();
        mem.set("place", (int) r.below(2)).set("fill", r.u64() >> 24).set("skip", r.chance(1, 2) ? 0 : (int) r.below(4096));
        p.set("mem", mem);
        Json av = Json::arr();
        for (auto &a : g_avoid)
                av.push(a);
        p.set("avoid", av);
        maybe_swarm_cpu(r, p, 1, 10);
        (void) tier;
        return p;
}

extern const Profile prof_hdr;
const Profile prof_hdr = { "hdr", gen_hdr, exec_hdr };
