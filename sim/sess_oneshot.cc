// sess_oneshot.cc — one-shot compression (isal_deflate_stateless) against a sink of plan-chosen size:
// C10 (bound, overflow, invalid parameters), C14 (full-flush chains), C11 producer, C05.
#include "sim.h"
#include "igzip_lib.h"

uint32_t level_buf_size_for(int level, int cls, uint32_t extra);
uint32_t deflate_bound(uint32_t len, int wrap);
int wrap_to_ref(int gzip_flag);

namespace
{
struct OneShot {
        const Json &plan;
        RunResult &rr;
        Hist &h;
        GuardCtx gc;
        OneShot(const Json &p, RunResult &r, Hist &hh) : plan(p), rr(r), h(hh) {}

        void run()
        {
                std::vector<uint8_t> data = make_data(plan.at("data"));
                int level = (int) ((uint64_t) plan.geti("level") % 4);
                int wrap = (int) ((uint64_t) plan.geti("wrap") % 5);
                int hb = (int) plan.geti("hb");
                if (hb != 0 && (hb < 9 || hb > 15))
                        hb = 9 + (int) ((uint64_t) hb % 7);
                const Json &m = plan.at("mem");
                int place = (int) (m.geti("place") & 1);
                uint64_t fill = (uint64_t) m.geti("fill"), regs = (uint64_t) m.geti("regs");
                const Json &chain = plan.at("chain");
                bool chained = !chain.a.empty();
                if (chained)
                        wrap = 0; // the documented appendable form is raw deflate
                int last_flush = plan.geti("last_flush") ? FULL_FLUSH : NO_FLUSH;
                const Json &inval = plan.at("inval");
                int inv_kind = (int) ((uint64_t) inval.ai(0) % 6);

                Slot *ss = g_arena.alloc(sizeof(struct isal_zstream), PLACE_END, "zstream", fill + 1, 16);
                if (!ss)
                        return;
                struct isal_zstream *st = (struct isal_zstream *) ss->data;
                if (GUARDED(gc, isal_deflate_stateless_init(st))) {
                        report_fault(rr, h, gc.fi, "isal_deflate_stateless_init");
                        return;
                }
                st->level = level;
                st->gzip_flag = wrap;
                st->hist_bits = hb;
                const Json &lb = plan.at("lb");
                int lbmode = (int) ((uint64_t) lb.ai(2) % 4);
                Slot *sl = nullptr;
                if (level == 0 || (level == 1 && lbmode == 1)) {
                        st->level_buf = nullptr; // documented: optional at level 1 for stateless
                        st->level_buf_size = 0;
                        if (level == 1)
                                COUNT("cfg.oneshot_lvl1_null_level_buf");
                } else {
                        uint32_t lbs = level_buf_size_for(level, (int) lb.ai(0), (uint32_t) ((uint64_t) lb.ai(1) % 70000));
                        sl = g_arena.alloc(lbs, PLACE_END, "level_buf", fill + 2, 16);
                        if (!sl)
                                return;
                        st->level_buf = sl->data;
                        st->level_buf_size = lbs;
                }
                int ht = (int) ((uint64_t) plan.at("huff").geti("t") % 3);
                if (ht != IGZIP_HUFFTABLE_CUSTOM)
                        isal_deflate_set_hufftables(st, nullptr, ht);
                else {
                        bool faulted = false;
                        Slot *sh = make_custom_hufftables(plan.at("huff"), data, fill, gc, rr, h, faulted);
                        if (faulted)
                                return;
                        if (sh)
                                isal_deflate_set_hufftables(st, (struct isal_hufftables *) sh->data, IGZIP_HUFFTABLE_CUSTOM);
                        else
                                ht = IGZIP_HUFFTABLE_DEFAULT;
                }
                h.rec("open1", { level, wrap, hb, (int64_t) st->level_buf_size, ht, (int64_t) data.size(), chained, inv_kind });
                h.sigmix(level * 131 + wrap * 17 + hb + ht * 7 + (chained ? 1000 : 0) + inv_kind * 10000);

                // ---- pieces
                std::vector<uint32_t> pieces;
                size_t left = data.size();
                for (auto &c : chain.a) {
                        uint32_t n = (uint32_t) std::min<uint64_t>((uint64_t) c.i % (1u << 24), left);
                        pieces.push_back(n);
                        left -= n;
                        if (pieces.size() >= 64)
                                break;
                }
                pieces.push_back((uint32_t) left);
                std::vector<uint8_t> all_out;
                RefInflate ref;
                ref.init(wrap_to_ref(wrap));
                size_t off = 0;
                for (size_t pi = 0; pi < pieces.size(); pi++) {
                        bool last = pi + 1 == pieces.size();
                        uint32_t n = pieces[pi];
                        int flush = last ? last_flush : FULL_FLUSH;
                        bool eos = last;
                        uint32_t bound = deflate_bound(n, wrap);
                        int64_t delta = chained ? 64 + (int64_t) ((uint64_t) plan.geti("delta") % 4096) : plan.geti("delta");
                        int64_t ao = (int64_t) bound + delta;
                        if (ao < 0)
                                ao = 0;
                        if (ao > (int64_t) bound + (1 << 20))
                                ao = bound + (1 << 20);
                        Slot *si = g_arena.alloc(n, place, "in_buf", 0, 1);
                        Slot *so = g_arena.alloc((size_t) ao, (m.geti("oplace") & 1) ? PLACE_START : PLACE_END, "out_buf", fill + 7 + pi, 1);
                        if (!si || !so)
                                return;
                        memcpy(si->data, data.data() + off, n);
                        uint64_t in_hash = hash_bytes(si->data, n);
                        std::vector<uint8_t> out_before(so->data, so->data + ao);
                        st->next_in = si->data;
                        st->avail_in = n;
                        st->next_out = so->data;
                        st->avail_out = (uint32_t) ao;
                        st->flush = (uint16_t) flush;
                        // with NO_FLUSH the one-shot call ends the stream whatever end_of_stream says on entry (ordinary use leaves it 0)
                        st->end_of_stream = (eos && !(flush == NO_FLUSH && plan.geti("eos_unset"))) ? (uint16_t) (plan.geti("eosval", 1) ? plan.geti("eosval", 1) : 1) : 0;
                        // ---- invalid-parameter injection (documented refusals)
                        bool injected = false;
                        if (inv_kind && last) {
                                injected = true;
                                h.unusual++;
                                switch (inv_kind) {
                                case 1:
                                        st->level = 4 + (uint32_t) ((uint64_t) inval.ai(1) % 1000);
                                        COUNT("fault.bad_level");
                                        break;
                                case 2:
                                        st->flush = (uint16_t) (inval.ai(1) & 1 ? SYNC_FLUSH : 3 + (uint64_t) inval.ai(1) % 60000);
                                        COUNT("fault.bad_flush");
                                        break;
                                case 3:
                                        if (level >= 2) {
                                                st->level_buf = nullptr;
                                                COUNT("fault.null_level_buf");
                                        } else
                                                injected = false;
                                        break;
                                case 4:
                                        if (level >= 1 && sl) {
                                                uint32_t minsz = level_buf_size_for(level, 0, 0);
                                                st->level_buf_size = minsz - 1 - (uint32_t) ((uint64_t) inval.ai(1) % minsz);
                                                COUNT("fault.undersized_level_buf");
                                        } else
                                                injected = false;
                                        break;
                                case 5:
                                        if (level >= 2) {
                                                st->level_buf_size = 0;
                                                COUNT("fault.undersized_level_buf");
                                        } else
                                                injected = false;
                                        break;
                                }
                        }
                        uint32_t ti0 = st->total_in, to0 = st->total_out;
                        int ret = 0;
                        h.calls++;
                        scramble_regs(regs ? regs + pi : 0);
                        if (GUARDED(gc, ret = isal_deflate_stateless(st))) {
                                report_fault(rr, h, gc.fi, strf("isal_deflate_stateless piece %zu (len %u, avail_out %lld, level %d, wrap %d, flush %d)", pi, n, (long long) ao, level, wrap, flush).c_str());
                                return;
                        }
                        uint32_t produced = (uint32_t) ao - st->avail_out;
                        h.rec("stateless", { (int64_t) pi, n, ao, flush, eos, ret, st->avail_in, produced, st->internal_state.state, (int64_t) hash_bytes(so->data, produced <= ao ? produced : 0) });
                        h.sigmix(((uint64_t) (ret & 0xff) << 24) ^ (size_class(n) << 16) ^ (size_class(produced) << 8) ^ (delta < 0 ? 1 : delta == 0 ? 2 : delta <= 10 ? 3 : 4) ^ ((uint64_t) flush << 40));
                        if (llabs(delta) <= 10 && !chained)
                                h.unusual++;
                        if (!g_arena.canary_ok(so) || !g_arena.canary_ok(ss) || !g_arena.canary_ok(sl) || !g_arena.canary_ok(si)) {
                                rr.fail("C05.canary", "bytes outside a declared buffer changed by isal_deflate_stateless");
                                if (!g_arena.canary_ok(so) && rr.alt.empty())
                                        rr.alt = "C10";
                                return;
                        }
                        if (hash_bytes(si->data, n) != in_hash) {
                                rr.fail("C05.source_modified", "isal_deflate_stateless modified its input buffer");
                                return;
                        }
                        if (injected) {
                                if (ret >= 0) {
                                        rr.fail("C10.invalid_param_accepted", strf("invalid parameter kind %d accepted: return %d (level %u flush %u level_buf %s size %u)", inv_kind, ret, st->level, st->flush, st->level_buf ? "set" : "NULL", st->level_buf_size));
                                        return;
                                }
                                if (memcmp(out_before.data(), so->data, (size_t) ao)) {
                                        rr.fail("C10.invalid_param_output", strf("invalid parameter kind %d rejected (%d) but the output buffer was modified", inv_kind, ret));
                                        return;
                                }
                                if (st->next_out != so->data || st->avail_out != (uint32_t) ao || st->total_out != to0 || st->next_in != si->data || st->avail_in != n || st->total_in != ti0) {
                                        rr.fail("C10.invalid_param_counters", strf("invalid parameter kind %d rejected (%d) but stream counters moved", inv_kind, ret));
                                        return;
                                }
                                COUNT("probe.invalid_param_refused");
                                return;
                        }
                        // ---- bound / overflow contract
                        if (st->avail_out > (uint32_t) ao) {
                                rr.fail("C10.accounting", "avail_out grew");
                                return;
                        }
                        if (ret == COMP_OK) {
                                if (st->avail_in != 0 || st->next_in != si->data + n || st->total_in != ti0 + n || st->next_out != so->data + produced || st->total_out != to0 + produced) {
                                        rr.fail("C10.accounting", strf("COMP_OK but avail_in %u next_in %+ld total_in %+d next_out %+ld (produced %u) total_out %+d", st->avail_in, (long) (st->next_in - si->data), (int) (st->total_in - ti0), (long) (st->next_out - so->data), produced, (int) (st->total_out - to0)));
                                        return;
                                }
                                if (produced > bound) {
                                        rr.fail("C10.bound_exceeded", strf("one-shot output %u bytes exceeds the bound %u for %u input bytes (wrap %d level %d)", produced, bound, n, wrap, level));
                                        return;
                                }
                                if (produced == bound)
                                        COUNT("probe.oneshot_output_equals_bound");
                        } else if (ret == STATELESS_OVERFLOW) {
                                COUNT("io.full_sink");
                                h.unusual++;
                                if ((uint64_t) ao >= bound) {
                                        rr.fail("C10.bound_overflow", strf("STATELESS_OVERFLOW although avail_out %lld >= bound %u (input %u, wrap %d, level %d, flush %d)", (long long) ao, bound, n, wrap, level, flush));
                                        return;
                                }
                                COUNT("probe.oneshot_overflow_reported");
                                return; // documented refusal; nothing more to check
                        } else {
                                rr.fail("C10.ret", strf("isal_deflate_stateless returned %d on legal parameters", ret));
                                return;
                        }
                        all_out.insert(all_out.end(), so->data, so->data + produced);
                        // ---- C14 one-shot chain: byte aligned, unterminated, independently decodable piece
                        if (!last) {
                                COUNT("probe.oneshot_full_flush_piece");
                                h.unusual++;
                                if (st->internal_state.bitbuf.m_bit_count != 0) {
                                        rr.fail("C14.oneshot_unaligned", strf("full-flush piece %zu left %u bits pending", pi, st->internal_state.bitbuf.m_bit_count));
                                        return;
                                }
                                RefInflate piece;
                                piece.init(RW_RAW);
                                int ps = piece.feed(so->data, produced);
                                if (ps != REF_NEED_MORE || !piece.at_block_boundary() || piece.bitpos != (uint64_t) produced * 8 || piece.out.size() != n || memcmp(piece.out.data(), data.data() + off, n)) {
                                        rr.fail("C14.oneshot_piece", strf("full-flush piece %zu (%u bytes in, %u out) is not a byte-aligned, unterminated, self-contained run of blocks: ref %s, boundary %d, bitpos %llu, decoded %zu", pi, n, produced, ref_status_name(ps), (int) piece.at_block_boundary(), (unsigned long long) piece.bitpos, piece.out.size()));
                                        return;
                                }
                        }
                        g_arena.release(si);
                        g_arena.release(so);
                        off += n;
                }
                // ---- the concatenation is one valid stream for the whole input
                int s = ref.feed(all_out.data(), all_out.size());
                h.rec("end1", { (int64_t) all_out.size(), s });
                bool terminated = last_flush == NO_FLUSH || true; // eos was set on the last piece in both forms
                (void) terminated;
                if (s == REF_ERR_TRAILER) {
                        rr.fail("C11.trailer", strf("one-shot trailer %08x/%u does not match the reference checksum (wrap %d)", ref.trailer_crc, ref.trailer_isize, wrap));
                        return;
                }
                if (s != REF_DONE || ref.out.size() != data.size() || memcmp(ref.out.data(), data.data(), data.size()) || ref.end_byte != all_out.size()) {
                        rr.fail(chained ? "C14.oneshot_chain" : "C10.oneshot_roundtrip", strf("one-shot output (%zu bytes, %zu pieces) reported as success does not decode to the input: ref %s, decoded %zu of %zu, stream end %zu", all_out.size(), pieces.size(), ref_status_name(s), ref.out.size(), data.size(), ref.end_byte));
                        return;
                }
                int w = eff_hist_bits(hb);
                if (ref.max_dist > (1u << w))
                        rr.fail("C17.window", strf("one-shot match distance %u exceeds 2^%d", ref.max_dist, w));
                if (wrap == IGZIP_ZLIB && ref.zl.present && (unsigned) (ref.zl.cmf >> 4) + 8 < (unsigned) w)
                        rr.fail("C17.zlib_cinfo", strf("zlib header CINFO %u advertises less than the 2^%d window in use", ref.zl.cmf >> 4, w));
                COUNT("run.oneshot_ok");
        }
};
} // namespace

static void exec_oneshot(const Json &plan, RunResult &rr, Hist &h)
{
        OneShot s(plan, rr, h);
        s.run();
}

static Json gen_oneshot(Rng &r0, const std::string &focus, int tier)
{
        Rng r(r0.u64(), "oneshot.plan");
        Json p = Json::obj();
        p.set("prof", "oneshot").set("focus", focus);
        int level = (int) r.below(4), wrap = (int) r.below(5);
        static const int hbs[] = { 0, 0, 9, 10, 11, 12, 13, 14, 15 };
        bool chain = focus == "C14" ? r.chance(4, 5) : r.chance(1, 8);
        uint64_t maxlen = r.chance(1, 8) ? 200000 : r.chance(1, 3) ? 70000 : 3000;
        Json data = gen_data_spec(r, maxlen, focus == "C10" ? (r.chance(2, 3) ? 1 : 0) : 0);
        maybe_adler_worst_case(r, focus, data);
        p.set("data", data).set("level", level).set("wrap", wrap).set("hb", r.pick(hbs));
        Json lb = Json::arr();
        lb.push((int) (r.chance(1, 2) ? 0 : r.below(5))).push(r.chance(1, 2) ? 0 : (int) r.below(300)).push((int) r.below(4));
        p.set("lb", lb);
        Json hf = Json::obj();
        hf.set("t", r.chance(1, 4) ? 0 : 1 + (int) r.below(2)).set("k", (int) r.below(DK_NKINDS)).set("n", (int) r.below(20000)).set("s", r.u64() >> 20).set("subset", (int) r.chance(1, 3));
        p.set("huff", hf);
        Json ch = Json::arr();
        if (chain) {
                int k = 1 + (int) r.below(6);
                for (int i = 0; i < k; i++)
                        ch.push((uint32_t) (r.chance(1, 6) ? 0 : r.logsize((uint64_t) data.geti("n") + 1)));
        }
        p.set("chain", ch).set("last_flush", (int) (chain ? r.below(2) : r.chance(1, 6))).set("eos_unset", (int) r.below(2)).set("eosval", r.chance(1, 6) ? (int) (r.chance(1, 2) ? 2 : 0x100 << r.below(8)) : 1);
        int64_t delta;
        uint64_t c = r.below(10);
        uint32_t bound = deflate_bound((uint32_t) data.geti("n"), wrap);
        if (focus == "C10" ? c < 6 : c < 2)
                delta = r.range(-10, 10);
        else if (c < 8)
                delta = r.chance(1, 2) ? (int64_t) r.logsize(70000) : -(int64_t) r.logsize(bound);
        else
                delta = 4096;
        p.set("delta", delta);
        Json inv = Json::arr();
        inv.push((int) ((focus == "C10" ? r.chance(1, 5) : r.chance(1, 20)) ? 1 + r.below(5) : 0)).push((int) r.below(70000));
        p.set("inval", inv);
        Json mem = Json::obj();
        mem.set("place", (int) r.below(2)).set("oplace", (int) r.below(2)).set("fill", r.u64() >> 24).set("regs", r.u64() >> 24).set("skip", r.chance(1, 2) ? 0 : (int) r.below(4096));
        p.set("mem", mem);
        maybe_swarm_cpu(r, p, 1, 10);
        (void) tier;
        return p;
}

extern const Profile prof_oneshot;
const Profile prof_oneshot = { "oneshot", gen_oneshot, exec_oneshot };
