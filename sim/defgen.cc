// defgen.cc — grammar-based deflate stream generator with addressable fault injection.
#include "defgen.h"

const char *grammar_fault_name(int k)
{
        static const char *n[] = { "none", "len_nlen", "btype3", "hlit_range", "hdist_range", "oversub_cl", "oversub_ll", "oversub_d", "repeat_first",
                                   "repeat_overflow", "no_eob", "unassigned", "len_sym_286", "dist_sym_30", "dist_too_far", "unassigned_dist" };
        return k >= 0 && k < GF_NKINDS ? n[k] : "?";
}

namespace
{
struct BitW {
        std::vector<uint8_t> b;
        uint64_t n = 0;
        void put(uint32_t v, int bits)
        {
                for (int i = 0; i < bits; i++, n++) {
                        if ((n & 7) == 0)
                                b.push_back(0);
                        if ((v >> i) & 1)
                                b.back() |= (uint8_t) (1u << (n & 7));
                }
        }
        void code(uint32_t c, int len)
        { // Huffman codes are packed starting with the most significant bit
                for (int i = len - 1; i >= 0; i--)
                        put((c >> i) & 1, 1);
        }
        void align()
        {
                while (n & 7)
                        put(0, 1);
        }
};
const uint16_t len_base[29] = { 3, 4, 5, 6, 7, 8, 9, 10, 11, 13, 15, 17, 19, 23, 27, 31, 35, 43, 51, 59, 67, 83, 99, 115, 131, 163, 195, 227, 258 };
const uint8_t len_extra[29] = { 0, 0, 0, 0, 0, 0, 0, 0, 1, 1, 1, 1, 2, 2, 2, 2, 3, 3, 3, 3, 4, 4, 4, 4, 5, 5, 5, 5, 0 };
const uint16_t dist_base[30] = { 1, 2, 3, 4, 5, 7, 9, 13, 17, 25, 33, 49, 65, 97, 129, 193, 257, 385, 513, 769, 1025, 1537, 2049, 3073, 4097, 6145, 8193, 12289, 16385, 24577 };
const uint8_t dist_extra[30] = { 0, 0, 0, 0, 1, 1, 2, 2, 3, 3, 4, 4, 5, 5, 6, 6, 7, 7, 8, 8, 9, 9, 10, 10, 11, 11, 12, 12, 13, 13 };
const uint8_t clen_order[19] = { 16, 17, 18, 0, 8, 7, 9, 6, 10, 5, 11, 4, 12, 3, 13, 2, 14, 1, 15 };

int len_sym(uint32_t l)
{
        if (l == 258)
                return 28;
        int s = 0;
        while (s < 28 && len_base[s + 1] <= l)
                s++;
        return s;
}
int dist_sym(uint32_t d)
{
        int s = 0;
        while (s < 29 && dist_base[s + 1] <= d)
                s++;
        return s;
}

struct Tok {
        uint16_t lit; // literal if len==0
        uint16_t len;
        uint32_t dist;
        uint8_t alt258 = 0; // length 258 spelt as symbol 284 with all five extra bits set (227 + 31): what no encoder emits and every decoder must read
};

// kraft sum in units of 2^-maxbits
uint64_t kraft(const std::vector<uint8_t> &l, int maxbits)
{
        uint64_t k = 0;
        for (uint8_t x : l)
                if (x)
                        k += 1ull << (maxbits - x);
        return k;
}

// choose code lengths (<= maxbits) for symbols with freq>0; mode: 0 frequency-shaped, 1 flat, 2 random exotic, 3 long chain
void choose_lengths(Rng &r, const std::vector<uint32_t> &freq, std::vector<uint8_t> &len, int maxbits, int mode, bool complete)
{
        size_t n = freq.size();
        len.assign(n, 0);
        std::vector<int> used;
        for (size_t i = 0; i < n; i++)
                if (freq[i])
                        used.push_back((int) i);
        if (used.empty())
                return;
        uint64_t total = 0;
        for (int s : used)
                total += freq[s];
        const uint64_t one = 1ull << maxbits;
        if (mode == 0) {
                for (int s : used) {
                        int l = 1;
                        while (l < maxbits && ((uint64_t) freq[s] << l) < total)
                                l++;
                        len[s] = (uint8_t) l;
                }
        } else if (mode == 1) {
                int l = 1;
                while ((1u << l) < used.size())
                        l++;
                if (l > maxbits)
                        l = maxbits;
                for (int s : used)
                        len[s] = (uint8_t) l;
        } else if (mode == 2) {
                for (int s : used)
                        len[s] = (uint8_t) (1 + r.below(maxbits));
        } else { // chain 1,2,3,...,maxbits,maxbits...
                std::vector<int> order = used;
                for (size_t i = order.size(); i > 1; i--)
                        std::swap(order[i - 1], order[r.below(i)]);
                int l = 1;
                for (int s : order) {
                        len[s] = (uint8_t) l;
                        if (l < maxbits)
                                l++;
                }
        }
        // repair: Kraft <= 1
        while (kraft(len, maxbits) > one) {
                // lengthen a random symbol that is not at the limit (prefer short ones: biggest effect)
                int best = -1;
                for (int tries = 0; tries < 8; tries++) {
                        int s = used[r.below(used.size())];
                        if (len[s] < maxbits && (best < 0 || len[s] < len[best]))
                                best = s;
                }
                if (best < 0)
                        for (int s : used)
                                if (len[s] < maxbits) {
                                        best = s;
                                        break;
                                }
                if (best < 0)
                        break; // cannot happen: n <= 2^maxbits
                len[best]++;
        }
        if (complete && used.size() >= 2) {
                uint64_t k;
                while ((k = kraft(len, maxbits)) < one) {
                        int longest = used[0];
                        for (int s : used)
                                if (len[s] > len[longest])
                                        longest = s;
                        if (len[longest] <= 1)
                                break;
                        len[longest]--;
                }
        }
}

void canon_codes(const std::vector<uint8_t> &len, std::vector<uint32_t> &code)
{
        int cnt[17] = { 0 };
        uint32_t next[17] = { 0 };
        for (uint8_t l : len)
                cnt[l]++;
        cnt[0] = 0;
        uint32_t c = 0;
        for (int b = 1; b <= 15; b++) {
                c = (c + cnt[b - 1]) << 1;
                next[b] = c;
        }
        code.assign(len.size(), 0);
        for (size_t i = 0; i < len.size(); i++)
                if (len[i])
                        code[i] = next[len[i]]++;
}
} // namespace

DefGenOut gen_deflate_stream(const Json &spec)
{
        DefGenOut o;
        Rng r((uint64_t) spec.geti("s"), "defgen");
        uint64_t target = (uint64_t) spec.geti("n") % 200000;
        int fault = (int) ((uint64_t) spec.geti("fault") % GF_NKINDS);
        uint64_t dict = (uint64_t) spec.geti("dict") % 32769;
        // "ld": valid streams with long code words - unused distance / length symbols get codes too and lengths follow a chain
        // 1,2,3,...,15,15, so that the decoder's second-level tables for codes longer than its first-level index are built and walked
        int ld = (int) (spec.geti("ld") & 3);
        Rng rld((uint64_t) spec.geti("s") ^ 0x6c64ull, "defgen.ld");
        o.fault = fault;
        BitW w;
        // ---- tokens
        std::vector<Tok> toks;
        std::vector<uint8_t> &plain = o.plain;
        int alpha = (int) r.below(4); // 0 random, 1 small alphabet, 2 text-ish, 3 binary
        bool want_far = r.chance(1, 3);
        while (plain.size() < target) {
                uint64_t pos = plain.size();
                if (pos + dict > 0 && r.chance(2, 5)) {
                        uint32_t len = r.chance(1, 4) ? (r.chance(1, 2) ? 3 : 258) : (uint32_t) (3 + r.logsize(255));
                        uint64_t maxd = std::min<uint64_t>(pos + dict, 32768);
                        uint32_t dist;
                        uint64_t c = r.below(8);
                        if (c == 0)
                                dist = 1;
                        else if (c == 1)
                                dist = (uint32_t) maxd;
                        else if (c == 2 && want_far)
                                dist = (uint32_t) std::min<uint64_t>(maxd, 32768 - r.below(3));
                        else if (c == 3)
                                dist = (uint32_t) (1 + r.below(std::min<uint64_t>(maxd, len))); // overlapping copy
                        else
                                dist = (uint32_t) (1 + r.logsize(maxd - 1));
                        if (dist > pos && dict == 0)
                                dist = (uint32_t) pos;
                        if (dist == 0)
                                continue;
                        // a copy that reaches into the dictionary needs dictionary bytes: represented as value 0x5d
                        for (uint32_t k = 0; k < len; k++) {
                                int64_t src = (int64_t) plain.size() - dist;
                                plain.push_back(src >= 0 ? plain[(size_t) src] : (uint8_t) (0x5d ^ (uint8_t) (dict + src)));
                        }
                        toks.push_back({ 0, (uint16_t) len, dist, (uint8_t) (len == 258 && rld.chance(1, 3)) });
                        if (dist > o.max_dist)
                                o.max_dist = dist;
                } else {
                        uint8_t b = alpha == 0 ? (uint8_t) r.u64() : alpha == 1 ? (uint8_t) ('a' + r.below(5)) : alpha == 2 ? (uint8_t) (32 + r.below(90)) : (uint8_t) r.below(2);
                        plain.push_back(b);
                        toks.push_back({ b, 0, 0, 0 });
                }
        }
        // ---- blocks
        size_t ti = 0, ppos = 0;
        int nblocks_planned = (int) (1 + r.below(5));
        int fault_block = fault ? (int) r.below(nblocks_planned) : -1;
        if (fault == GF_DIST_TOO_FAR)
                fault_block = 0;
        bool done_fault = false;
        for (int bi = 0; bi < nblocks_planned || ti < toks.size(); bi++) {
                bool lastb = bi >= nblocks_planned - 1;
                size_t ntok = lastb ? toks.size() - ti : r.below(toks.size() - ti + 1);
                if (r.chance(1, 6))
                        ntok = 0; // empty block
                int type = (int) r.below(3);
                bool inject = (bi == fault_block) && !done_fault;
                if (inject && fault == GF_UNASSIGNED_DIST)
                        ntok = 0; // the faulty block carries only the one bad match, so its distance code can be shaped freely
                if (inject) {
                        switch (fault) {
                        case GF_LEN_NLEN: type = 0; break;
                        case GF_BTYPE3: break;
                        case GF_LEN_SYM_286:
                        case GF_DIST_SYM_30: type = 1; break;
                        case GF_DIST_TOO_FAR: type = 1; break;
                        default: type = 2;
                        }
                }
                size_t plain_in_block = 0;
                for (size_t k = ti; k < ti + ntok; k++)
                        plain_in_block += toks[k].len ? toks[k].len : 1;
                bool final = lastb && (ti + ntok == toks.size());
                if (inject && fault != GF_DIST_TOO_FAR)
                        final = r.chance(1, 2);
                o.block_start_bits.push_back(w.n);
                o.nblocks++;
                if (inject && fault == GF_BTYPE3) {
                        o.fault_bit = w.n;
                        w.put(final ? 1 : 0, 1);
                        w.put(3, 2);
                        o.fault_end_bit = w.n;
                        done_fault = true;
                        break;
                }
                if (type == 0) { // stored: may need several blocks
                        size_t left = plain_in_block;
                        do {
                                size_t n = std::min<size_t>(left, r.chance(1, 3) ? 65535 : 1 + r.below(65535));
                                bool f2 = final && n == left;
                                w.put(f2 ? 1 : 0, 1);
                                w.put(0, 2);
                                w.align();
                                uint32_t nl = (~(uint32_t) n) & 0xffff;
                                if (inject && fault == GF_LEN_NLEN) {
                                        o.fault_bit = w.n;
                                        nl ^= 1u << r.below(16);
                                }
                                w.put((uint32_t) n, 16);
                                w.put(nl, 16);
                                if (inject && fault == GF_LEN_NLEN) {
                                        o.fault_end_bit = w.n;
                                        done_fault = true;
                                }
                                for (size_t k = 0; k < n; k++)
                                        w.put(plain[ppos + k], 8);
                                ppos += n;
                                left -= n;
                        } while (left > 0 && !done_fault);
                        ti += ntok;
                        if (done_fault)
                                break;
                        continue;
                }
                // ---- huffman blocks
                std::vector<uint8_t> ll(288, 0), dl(32, 0);
                std::vector<uint32_t> lc, dc;
                if (type == 1) {
                        for (int s = 0; s < 144; s++)
                                ll[s] = 8;
                        for (int s = 144; s < 256; s++)
                                ll[s] = 9;
                        for (int s = 256; s < 280; s++)
                                ll[s] = 7;
                        for (int s = 280; s < 288; s++)
                                ll[s] = 8;
                        for (int s = 0; s < 32; s++)
                                dl[s] = 5;
                        w.put(final ? 1 : 0, 1);
                        w.put(1, 2);
                } else {
                        std::vector<uint32_t> lf(286, 0), df(30, 0);
                        for (size_t k = ti; k < ti + ntok; k++) {
                                if (toks[k].len) {
                                        lf[257 + (toks[k].alt258 ? 27 : len_sym(toks[k].len))]++;
                                        df[dist_sym(toks[k].dist)]++;
                                } else
                                        lf[toks[k].lit]++;
                        }
                        lf[256]++;
                        int ud_len = 0;
                        (void) ud_len;
                        if (inject && fault == GF_UNASSIGNED_DIST)
                                lf[257 + r.below(29)]++;
                        // extra unused symbols that nevertheless get codes
                        int extra = (int) r.below(4) == 0 ? (int) r.below(20) : 0;
                        for (int e = 0; e < extra; e++)
                                lf[r.below(286)] += 1;
                        if (r.chance(1, 4))
                                df[r.below(30)] += 1;
                        bool incomplete = r.chance(1, 4) || (inject && fault == GF_UNASSIGNED);
                        int lmode = (int) r.below(4), dmode = (int) r.below(4);
                        if (ld & 1) {
                                for (int q = (int) (12 + rld.below(19)); q > 0; q--)
                                        df[rld.below(30)] += 1;
                                if (rld.chance(3, 4))
                                        dmode = 3;
                        }
                        if (ld & 2) {
                                for (int q = (int) (20 + rld.below(200)); q > 0; q--)
                                        lf[rld.below(286)] += 1;
                                if (rld.chance(3, 4))
                                        lmode = 3;
                        }
                        std::vector<uint8_t> l2, d2;
                        choose_lengths(r, lf, l2, 15, lmode, !incomplete);
                        if (inject && fault == GF_UNASSIGNED && kraft(l2, 15) >= (1u << 15)) {
                                // force incompleteness: lengthen one symbol
                                for (size_t s = 0; s < l2.size(); s++)
                                        if (l2[s] && l2[s] < 15) {
                                                l2[s]++;
                                                break;
                                        }
                        }
                        choose_lengths(r, df, d2, 15, dmode, !r.chance(1, 4));
                        int nd = 0;
                        for (uint8_t x : d2)
                                nd += x != 0;
                        if (nd == 0 && r.chance(1, 2))
                                d2[r.below(30)] = 1; // "one distance code of one bit" form; else the all-zero form
                        if (nd <= 1)
                                o.has_single_code = true;
                        if (kraft(l2, 15) < (1u << 15))
                                o.has_incomplete = true;
                        if (inject && fault == GF_OVERSUB_LL) {
                                std::vector<uint32_t> f2(286, 1); // give every symbol a code, complete, then shorten one
                                choose_lengths(r, f2, l2, 15, 0, true);
                                for (size_t s = 0; s < l2.size(); s++)
                                        if (l2[s] > 1) {
                                                l2[s]--;
                                                break;
                                        }
                        }
                        if (inject && fault == GF_OVERSUB_LL && rld.chance(1, 2)) {
                                // second shape: every symbol coded and complete, then one of the DEEPEST code words moved up one level, so
                                // that the excess is the smallest possible (2^-maxlen) and sits at the longest lengths only
                                std::vector<uint32_t> f3(286, 1);
                                choose_lengths(r, f3, l2, 15, 0, true);
                                int maxl = 0;
                                for (uint8_t x : l2)
                                        maxl = std::max<int>(maxl, x);
                                for (size_t q = l2.size(); q-- > 0;)
                                        if (l2[q] == maxl && maxl > 1) {
                                                l2[q]--;
                                                break;
                                        }
                        }
                        if (inject && fault == GF_OVERSUB_LL && rld.chance(1, 3)) {
                                // third shape: the excess sits at the 15-bit level alone - a complete chain 1,2,...,14,15,15 over sixteen
                                // symbols (end-of-block among them) plus one to three more 15-bit code words; every level up to 14 is in order
                                std::fill(l2.begin(), l2.end(), 0);
                                std::vector<int> syms;
                                syms.push_back(256);
                                while (syms.size() < 19) {
                                        int c = (int) rld.below(286);
                                        if (std::find(syms.begin(), syms.end(), c) == syms.end())
                                                syms.push_back(c);
                                }
                                for (size_t q = syms.size(); q > 1; q--)
                                        std::swap(syms[q - 1], syms[rld.below(q)]);
                                int extra = 1 + (int) rld.below(3);
                                for (int q = 0; q < 16 + extra; q++)
                                        l2[syms[q]] = (uint8_t) (q < 15 ? q + 1 : 15);
                        }
                        if (inject && fault == GF_OVERSUB_D) {
                                std::vector<uint32_t> f2(30, 0);
                                for (int s = 0; s < 30; s++)
                                        f2[s] = df[s] ? df[s] : (s < 4 ? 1 : 0);
                                choose_lengths(r, f2, d2, 15, 0, true);
                                for (size_t s = 0; s < d2.size(); s++)
                                        if (d2[s] > 1) {
                                                d2[s]--;
                                                break;
                                        } else if (d2[s] == 1) { // {1,1}: add a third one-bit code
                                                for (size_t q = 0; q < d2.size(); q++)
                                                        if (!d2[q]) {
                                                                d2[q] = 1;
                                                                break;
                                                        }
                                                break;
                                        }
                        }
                        if (inject && fault == GF_OVERSUB_D && rld.chance(1, 2)) {
                                // second shape of the same fault: a complete chain 1,2,...,L-1,L,L plus ONE more code word of the deepest
                                // length L, so that the code is over-subscribed only by its longest words (L = 15 a third of the time)
                                int used = 0;
                                for (int q = 0; q < 30; q++)
                                        used += df[q] != 0;
                                int L = rld.chance(1, 3) ? 15 : 2 + (int) rld.below(14);
                                if (used - 1 > L)
                                        L = used - 1;
                                if (L <= 15) {
                                        std::vector<int> syms;
                                        for (int q = 0; q < 30; q++)
                                                if (df[q])
                                                        syms.push_back(q);
                                        std::vector<int> rest;
                                        for (int q = 0; q < 30; q++)
                                                if (!df[q])
                                                        rest.push_back(q);
                                        for (size_t q = rest.size(); q > 1; q--)
                                                std::swap(rest[q - 1], rest[rld.below(q)]);
                                        for (int q : rest)
                                                syms.push_back(q);
                                        for (size_t q = (size_t) std::min<int>(used, L + 1); q > 1; q--) // which used symbol gets which depth: random
                                                std::swap(syms[q - 1], syms[rld.below(q)]);
                                        for (auto &x : d2)
                                                x = 0;
                                        for (int q = 0; q <= L; q++)
                                                d2[syms[q]] = (uint8_t) (q < L ? q + 1 : L);
                                        d2[syms[L + 1]] = (uint8_t) L; // the surplus word
                                }
                        }
                        if (inject && fault == GF_NO_EOB)
                                l2[256] = 0;
                        if (inject && fault == GF_UNASSIGNED_DIST) {
                                // lengths 1,2,...,L-1,L on L symbols: Kraft sum 1 - 2^-L, the all-ones code word of length L is unassigned
                                ud_len = (int) r.range(2, 15);
                                std::vector<int> syms;
                                for (int q = 0; q < 30; q++)
                                        syms.push_back(q);
                                for (size_t q = syms.size(); q > 1; q--)
                                        std::swap(syms[q - 1], syms[r.below(q)]);
                                for (auto &x : d2)
                                        x = 0;
                                for (int q = 0; q < ud_len; q++)
                                        d2[syms[q]] = (uint8_t) (q + 1);
                        }
                        for (size_t s = 0; s < 286; s++)
                                ll[s] = l2[s];
                        for (size_t s = 0; s < 30; s++)
                                dl[s] = d2[s];
                        // HLIT/HDIST
                        int hlit = 286, hdist = 30;
                        while (hlit > 257 && ll[hlit - 1] == 0)
                                hlit--;
                        while (hdist > 1 && dl[hdist - 1] == 0)
                                hdist--;
                        if (r.chance(1, 4))
                                hlit = (int) r.range(hlit, 286);
                        if (r.chance(1, 4))
                                hdist = (int) r.range(hdist, 30);
                        int hlit_field = hlit - 257, hdist_field = hdist - 1;
                        if (inject && fault == GF_HLIT_RANGE) {
                                hlit_field = 30 + (int) r.below(2);
                                hlit = hlit_field + 257;
                        }
                        if (inject && fault == GF_HDIST_RANGE) {
                                hdist_field = 30 + (int) r.below(2);
                                hdist = hdist_field + 1;
                        }
                        std::vector<uint8_t> seq;
                        for (int s = 0; s < hlit; s++)
                                seq.push_back(s < 288 ? ll[s] : 0);
                        for (int s = 0; s < hdist; s++)
                                seq.push_back(s < 32 ? dl[s] : 0);
                        // RLE tokens: (sym, extra value, extra bits)
                        struct CT {
                                uint8_t sym, ebits;
                                uint16_t ev;
                        };
                        std::vector<CT> ct;
                        bool use_rep = !r.chance(1, 5);
                        size_t i = 0;
                        size_t stop_at = seq.size();
                        if (inject && fault == GF_REPEAT_OVERFLOW)
                                stop_at = seq.size() - 1 - r.below(std::min<size_t>(seq.size() - 1, 10));
                        if (inject && fault == GF_REPEAT_FIRST)
                                ct.push_back({ 16, 2, (uint16_t) r.below(4) });
                        while (i < stop_at) {
                                size_t run = 1;
                                while (i + run < stop_at && seq[i + run] == seq[i])
                                        run++;
                                if (use_rep && seq[i] == 0 && run >= 3 && r.chance(4, 5)) {
                                        size_t n = run >= 11 && r.chance(3, 4) ? std::min<size_t>(run, 11 + r.below(128)) : std::min<size_t>(run, 3 + r.below(8));
                                        if (n >= 11)
                                                ct.push_back({ 18, 7, (uint16_t) (n - 11) });
                                        else
                                                ct.push_back({ 17, 3, (uint16_t) (n - 3) });
                                        i += n;
                                } else if (use_rep && i > 0 && seq[i] == seq[i - 1] && run >= 3 && r.chance(4, 5)) {
                                        size_t n = std::min<size_t>(run, 3 + r.below(4));
                                        ct.push_back({ 16, 2, (uint16_t) (n - 3) });
                                        i += n;
                                } else {
                                        ct.push_back({ seq[i], 0, 0 });
                                        i++;
                                }
                        }
                        if (inject && fault == GF_REPEAT_OVERFLOW) {
                                size_t left = seq.size() - stop_at; // 1..10 left; ask for more
                                int which = (int) r.below(3);
                                if (which == 0 && stop_at > 0)
                                        ct.push_back({ 16, 2, 3 }); // 6 > left? ensure
                                else if (which == 1)
                                        ct.push_back({ 17, 3, 7 }); // 10
                                else
                                        ct.push_back({ 18, 7, (uint16_t) r.below(128) }); // >= 11
                                if (ct.back().sym == 16 && left >= 6)
                                        ct.back() = { 18, 7, 5 };
                                if (ct.back().sym == 17 && left >= 10)
                                        ct.back() = { 18, 7, 5 };
                        }
                        std::vector<uint32_t> cf(19, 0);
                        for (auto &t : ct)
                                cf[t.sym]++;
                        std::vector<uint8_t> cl;
                        choose_lengths(r, cf, cl, 7, (int) r.below(3), !r.chance(1, 5));
                        if (inject && fault == GF_OVERSUB_CL) {
                                int set = 0;
                                for (int s = 0; s < 19 && set < 3; s++)
                                        if (cl[s]) {
                                                cl[s] = 1;
                                                set++;
                                        }
                                for (int s = 0; s < 19 && set < 3; s++)
                                        if (!cl[s]) {
                                                cl[s] = 1;
                                                set++;
                                        }
                        }
                        std::vector<uint32_t> cc;
                        canon_codes(cl, cc);
                        int hclen = 19;
                        while (hclen > 4 && cl[clen_order[hclen - 1]] == 0)
                                hclen--;
                        if (r.chance(1, 5))
                                hclen = (int) r.range(hclen, 19);
                        uint64_t hdr_start = w.n;
                        w.put(final ? 1 : 0, 1);
                        w.put(2, 2);
                        if (inject && (fault == GF_HLIT_RANGE || fault == GF_HDIST_RANGE))
                                o.fault_bit = w.n;
                        w.put((uint32_t) hlit_field, 5);
                        w.put((uint32_t) hdist_field, 5);
                        w.put((uint32_t) (hclen - 4), 4);
                        if (inject && (fault == GF_HLIT_RANGE || fault == GF_HDIST_RANGE)) {
                                o.fault_end_bit = w.n;
                                done_fault = true;
                        }
                        for (int k = 0; k < hclen; k++)
                                w.put(cl[clen_order[k]], 3);
                        if (inject && fault == GF_OVERSUB_CL) {
                                o.fault_bit = hdr_start;
                                o.fault_end_bit = w.n;
                                done_fault = true;
                        }
                        for (auto &t : ct) {
                                w.code(cc[t.sym], cl[t.sym]);
                                if (t.ebits)
                                        w.put(t.ev, t.ebits);
                        }
                        if (inject && (fault == GF_OVERSUB_LL || fault == GF_OVERSUB_D || fault == GF_REPEAT_FIRST || fault == GF_REPEAT_OVERFLOW || fault == GF_NO_EOB)) {
                                o.fault_bit = hdr_start;
                                o.fault_end_bit = w.n;
                                done_fault = true;
                        }
                        for (uint8_t x : seq)
                                if (x > o.max_code_len)
                                        o.max_code_len = x;
                        if (done_fault) {
                                if (fault == GF_HLIT_RANGE || fault == GF_HDIST_RANGE || fault == GF_OVERSUB_CL || fault == GF_OVERSUB_LL || fault == GF_OVERSUB_D || fault == GF_REPEAT_FIRST ||
                                    fault == GF_REPEAT_OVERFLOW || fault == GF_NO_EOB)
                                        break;
                        }
                }
                canon_codes(ll, lc);
                canon_codes(dl, dc);
                // ---- symbols
                size_t inject_at = inject ? ti + r.below(ntok + 1) : (size_t) -1;
                for (size_t k = ti; k <= ti + ntok; k++) {
                        if (k == inject_at && !done_fault) {
                                if (fault == GF_UNASSIGNED) {
                                        o.fault_bit = w.n;
                                        for (int q = 0; q < 15; q++)
                                                w.put(1, 1);
                                        o.fault_end_bit = w.n;
                                        for (int q = 0; q < 64; q++)
                                                w.put(1, 1);
                                        done_fault = true;
                                        break;
                                }
                                if (fault == GF_UNASSIGNED_DIST) {
                                        int ls = 257;
                                        while (ls < 286 && !ll[ls])
                                                ls++;
                                        o.fault_bit = w.n;
                                        w.code(lc[ls], ll[ls]);
                                        w.put(0, len_extra[ls - 257]);
                                        for (int q = 0; q < 15; q++)
                                                w.put(1, 1);
                                        o.fault_end_bit = w.n;
                                        for (int q = 0; q < 64; q++)
                                                w.put(1, 1);
                                        done_fault = true;
                                        break;
                                }
                                if (fault == GF_LEN_SYM_286) {
                                        o.fault_bit = w.n;
                                        w.code(0xC0 + 6 + (uint32_t) r.below(2), 8);
                                        o.fault_end_bit = w.n;
                                        done_fault = true;
                                        break;
                                }
                                if (fault == GF_DIST_SYM_30) {
                                        o.fault_bit = w.n;
                                        w.code(lc[257], ll[257]);
                                        w.code(30 + (uint32_t) r.below(2), 5);
                                        o.fault_end_bit = w.n;
                                        done_fault = true;
                                        break;
                                }
                                if (fault == GF_DIST_TOO_FAR) {
                                        uint32_t d = (uint32_t) (ppos + dict + 1);
                                        if (d <= 32768) {
                                                o.fault_bit = w.n;
                                                int ds = dist_sym(d);
                                                w.code(lc[257], ll[257]);
                                                w.code(dc[ds], dl[ds]);
                                                w.put(d - dist_base[ds], dist_extra[ds]);
                                                o.fault_end_bit = w.n;
                                                done_fault = true;
                                                break;
                                        }
                                }
                        }
                        if (k == ti + ntok)
                                break;
                        const Tok &t = toks[k];
                        if (t.len) {
                                int ls = t.alt258 ? 27 : len_sym(t.len), ds = dist_sym(t.dist);
                                w.code(lc[257 + ls], ll[257 + ls]);
                                w.put(t.len - len_base[ls], len_extra[ls]); // alt258: 258 - 227 = 31, all five extra bits
                                w.code(dc[ds], dl[ds]);
                                w.put(t.dist - dist_base[ds], dist_extra[ds]);
                                ppos += t.len;
                        } else {
                                w.code(lc[t.lit], ll[t.lit]);
                                ppos += 1;
                        }
                }
                if (done_fault)
                        break;
                w.code(lc[256], ll[256]);
                ti += ntok;
        }
        if (fault && !done_fault)
                o.fault = GF_NONE; // the fault could not be placed (e.g. distance would exceed 32768): stream is valid
        if (o.fault) {
                plain.resize(std::min(plain.size(), ppos));
                for (int q = 0; q < 24; q++) // filler so that "bytes past the fault" exist
                        w.put((uint32_t) r.below(256), 8);
        }
        o.nbits = w.n;
        o.bytes = w.b;
        return o;
}
