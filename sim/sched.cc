// sched.cc — scheduler seam: tasks are real pthreads, each parked on a futex; exactly one is runnable at any
// time and only the plan decides who runs next.  Switch points: every API-call boundary and, inside resolver windows
// (CPU seam: CPUID faulting + trap flag), every instruction.  Library-owned writable data is write-protected except
// while a resolver window is open; what changes in it across a window must be one of the *_dispatched slots.
//  mode 0 "interleave": 2-6 tasks, each a seeded program over the public API on its own contexts; each task's
//        history must equal that of the same program run alone;
//  mode 1 "race": all slots cold, 2-4 tasks make their first call to the same entry point and are pre-empted at
//        plan-chosen instruction indices inside the resolver.
#include "cpu.h"
#include <pthread.h>
#include <atomic>
#include <sys/syscall.h>
#include <linux/futex.h>
#include <unistd.h>
#include <time.h>
#include <set>

void exec_kern(const Json &plan, RunResult &rr, Hist &h);
Json gen_kern_ops(Rng &r, int nops);
extern void (*g_kern_yield)(void *);
extern __thread void *t_kern_yield_arg;
extern int g_kern_portable;

namespace
{
struct Sched;
struct Task {
        int id = 0;
        Sched *s = nullptr;
        pthread_t th;
        Json plan; // kern plan: {ops, mem}
        Hist h;
        RunResult rr;
        CpuWin win;
        bool done = false;
        bool cold = false;
        uint32_t switches = 0;
};
struct Sched {
        std::vector<Task> tasks;
        std::atomic<int> turn { -2 };
        std::vector<int> order; // the plan's schedule: who runs after each switch point
        size_t oi = 0;
        std::set<std::pair<int, uint32_t>> preempt; // (task, resolver step) pre-emption points
        int open_windows = 0;
        std::vector<uint8_t> snapshot; // library RW segment
        std::vector<std::set<uint64_t>> slot_values;
        std::string libdata_violation;
        uint64_t steps_total = 0, preemptions = 0, call_switches = 0;
        bool protect = true;

        static void fwait(std::atomic<int> *a, int cur)
        {
                struct timespec ts = { 0, 200 * 1000 * 1000 };
                syscall(SYS_futex, (int *) a, FUTEX_WAIT, cur, &ts, 0, 0);
        }
        void wait_turn(int me)
        {
                t_watchdog_pause++;
                int cur;
                while ((cur = turn.load(std::memory_order_acquire)) != me)
                        fwait(&turn, cur);
                t_watchdog_pause--;
        }
        void give(int to)
        {
                turn.store(to, std::memory_order_release);
                syscall(SYS_futex, (int *) &turn, FUTEX_WAKE, 64, 0, 0, 0);
        }
        int next_choice(int me)
        {
                if (oi >= order.size())
                        return me;
                int n = order[oi++] % (int) tasks.size();
                if (n < 0)
                        n += (int) tasks.size();
                return tasks[n].done ? me : n;
        }
        void switch_point(int me)
        {
                int nx = next_choice(me);
                if (nx == me)
                        return;
                tasks[me].switches++;
                give(nx);
                wait_turn(me);
        }
        void finish(int me)
        {
                tasks[me].done = true;
                for (auto &t : tasks)
                        if (!t.done) {
                                give(t.id);
                                return;
                        }
                give(-1);
        }
        // ---- library data monitor
        // The RW segment of a library built with AddressSanitizer has poisoned red zones between its globals: it is read
        // here with plain loops in functions the sanitizer leaves alone (memcpy / memcmp would be intercepted).
        __attribute__((no_sanitize_address, noinline)) static void raw_copy(uint8_t *d, const uint8_t *s, size_t n)
        {
                for (size_t i = 0; i < n; i++)
                        ((volatile uint8_t *) d)[i] = s[i];
        }
        __attribute__((no_sanitize_address, noinline)) static bool raw_same(const uint8_t *a, const uint8_t *b, size_t n)
        {
                uint8_t acc = 0;
                for (size_t i = 0; i < n; i++)
                        acc |= ((const volatile uint8_t *) a)[i] ^ b[i];
                return acc == 0;
        }
        void snap()
        {
                snapshot.resize(g_lib.rw_hi - g_lib.rw_lo);
                raw_copy(snapshot.data(), (const uint8_t *) g_lib.rw_lo, snapshot.size());
        }
        void diff_check(const char *when)
        {
                size_t n = g_lib.rw_hi - g_lib.rw_lo;
                if (raw_same((const uint8_t *) g_lib.rw_lo, snapshot.data(), n))
                        return;
                std::vector<uint8_t> curv(n);
                raw_copy(curv.data(), (const uint8_t *) g_lib.rw_lo, n);
                const uint8_t *cur = curv.data();
                // something changed: allowed only inside the 8 bytes of a dispatch slot
                std::vector<uint8_t> mask(n, 0);
                for (size_t i = 0; i < cpu_nslots(); i++) {
                        size_t off = cpu_slot_addr(i) - g_lib.rw_lo;
                        for (int b = 0; b < 8; b++)
                                mask[off + b] = 1;
                }
                for (size_t i = 0; i < n; i++)
                        if (cur[i] != snapshot[i] && !mask[i] && libdata_violation.empty()) {
                                const LibSym *sy = g_lib.find(g_lib.rw_lo + i);
                                libdata_violation = strf("%s: library-owned writable data changed at %s+0x%lx (offset 0x%zx of the RW segment), which is not a dispatch slot", when, sy ? sy->name.c_str() : "?", (unsigned long) (sy ? g_lib.rw_lo + i - sy->addr : 0), i);
                        }
                snapshot.assign(cur, cur + n);
        }
        void window(bool opening)
        {
                if (!protect)
                        return;
                if (opening) {
                        if (open_windows++ == 0)
                                cpu_lib_readonly(false);
                } else {
                        if (--open_windows == 0) {
                                diff_check("resolver window");
                                cpu_lib_readonly(true);
                        }
                }
        }
        void observe_slots()
        {
                for (size_t i = 0; i < cpu_nslots(); i++)
                        slot_values[i].insert(cpu_slot_value(i));
        }
};

__thread Task *t_task = nullptr;

void step_hook(void *arg, uintptr_t, uint32_t step)
{
        Task *t = (Task *) arg;
        Sched *s = t->s;
        s->steps_total++;
        s->observe_slots();
        if (s->preempt.count({ t->id, step })) {
                s->preemptions++;
                COUNT("sched.preempt_at_resolver_step");
                s->switch_point(t->id);
        }
}
void window_hook(void *arg, bool opening)
{
        Task *t = (Task *) arg;
        t->s->window(opening);
}
void yield_cb(void *arg)
{
        Task *t = (Task *) arg;
        t->s->call_switches++;
        COUNT("sched.switch_at_call");
        t->s->switch_point(t->id);
}

void *task_main(void *arg)
{
        Task *t = (Task *) arg;
        t_task = t;
        static __thread uint8_t altstack[1 << 16];
        stack_t ss;
        ss.ss_sp = altstack;
        ss.ss_size = sizeof altstack;
        ss.ss_flags = 0;
        sigaltstack(&ss, 0);
        t->s->wait_turn(t->id);
        t_kern_yield_arg = t;
        if (t->cold) {
                t->win.step_hook = step_hook;
                t->win.window_hook = window_hook;
                t->win.hook_arg = t;
                cpu_window_open(&t->win);
        }
        exec_kern(t->plan, t->rr, t->h);
        if (t->cold) {
                if (t->win.stepping) // abandoned mid-window (fault): balance the monitor
                        t->s->window(false);
                cpu_window_close(&t->win);
        }
        t_kern_yield_arg = nullptr;
        t->s->finish(t->id);
        return nullptr;
}
} // namespace

static void exec_sched(const Json &plan, RunResult &rr, Hist &h)
{
        if (!cpu_load_classes()) {
                rr.fail("INFRA.classes", "instruction class table missing");
                return;
        }
        int mode = (int) ((uint64_t) plan.geti("mode") % 2);
        const Json &tj = plan.at("tasks");
        int n = (int) tj.a.size();
        if (n < 1)
                return;
        if (n > 6)
                n = 6;
        bool cold = mode == 1 || plan.geti("cold") != 0;
        Sched s;
        s.tasks.resize(n);
        s.slot_values.resize(cpu_nslots());
        for (auto &e : plan.at("order").a)
                s.order.push_back((int) e.i);
        for (auto &e : plan.at("pre").a)
                s.preempt.insert({ (int) ((uint64_t) e.ai(0) % n), (uint32_t) ((uint64_t) e.ai(1) % 400) });
        SimCpu cpu = cpu_from_plan(plan.at("cpu"));
        g_kern_portable = 0;
        g_kern_yield = yield_cb;
        cpu_cold_start(); // deterministic baseline: which slots are resolved never depends on earlier runs of this process
        for (int i = 0; i < n; i++) {
                Task &t = s.tasks[i];
                t.id = i;
                t.s = &s;
                t.cold = cold;
                t.plan = Json::obj();
                t.plan.set("ops", tj.a[i].at("ops")).set("mem", plan.at("mem"));
                t.win.cpu = cpu;
                t.win.max_steps = 200 + (uint32_t) ((uint64_t) plan.geti("max_steps") % 300);
        }
        // ---- serial reference first: each program alone under the same simulated CPU (this also warms exactly the slots
        // the programs need, so that in warm mode the library's data can stay write-protected during the interleaved pass)
        std::vector<uint64_t> serial_hash(n), serial_slots;
        for (int i = 0; i < n; i++) {
                Task &t = s.tasks[i];
                g_arena.run_begin((size_t) ((uint64_t) plan.at("mem").geti("skip")));
                if (cold)
                        cpu_cold_start();
                RunResult r1;
                Hist h1;
                CpuWin w;
                w.cpu = cpu;
                w.max_steps = t.win.max_steps;
                if (cold)
                        cpu_window_open(&w);
                exec_kern(t.plan, r1, h1);
                if (cold)
                        cpu_window_close(&w);
                if (w.viol) {
                        rr.fail("C16.ud", strf("serial pass: instruction class not available under the simulated CPU (needs %s)", need_str(w.viol_need).c_str()));
                        cpu_cold_start();
                        return;
                }
                if (r1.violated()) {
                        rr = r1;
                        return;
                }
                serial_hash[i] = h1.h;
        }
        for (size_t i = 0; i < cpu_nslots(); i++)
                serial_slots.push_back(cpu_slot_value(i));
        g_arena.run_begin((size_t) ((uint64_t) plan.at("mem").geti("skip")));
        // ---- the library's writable data: cold slots (cold mode), snapshot, write-protect
        if (cold)
                cpu_cold_start();
        s.snap();
        cpu_lib_readonly(true);
        h.rec("sched", { mode, n, cold, (int64_t) s.order.size(), (int64_t) s.preempt.size(), cpu.l1_ecx, cpu.l7_ebx, cpu.l7_ecx, cpu.xcr0 });
        h.sigmix((uint64_t) mode * 7 + n + (cold ? 100 : 0));
        for (int i = 0; i < n; i++)
                pthread_create(&s.tasks[i].th, nullptr, task_main, &s.tasks[i]);
        s.give(0);
        // wait for the baton to come back (-1), with a generous wall-clock limit
        struct timespec t0, t1;
        clock_gettime(CLOCK_MONOTONIC, &t0);
        bool stuck = false;
        while (s.turn.load() != -1) {
                Sched::fwait(&s.turn, s.turn.load());
                clock_gettime(CLOCK_MONOTONIC, &t1);
                if (t1.tv_sec - t0.tv_sec > 120) {
                        stuck = true;
                        break;
                }
        }
        if (stuck) {
                g_infra_faults++;
                g_infra_msg = "scheduler: tasks did not finish within 120 s";
                _exit(2);
        }
        for (int i = 0; i < n; i++)
                pthread_join(s.tasks[i].th, nullptr);
        g_kern_yield = nullptr;
        s.diff_check("end of run");
        cpu_lib_readonly(false);
        uint64_t trapped = 0;
        for (auto &t : s.tasks) {
                trapped += t.win.total_steps;
                h.calls += t.h.calls;
                COUNTN("cpu.cpuid_emulated", t.win.cpuids);
                COUNTN("cpu.xgetbv_emulated", t.win.xgetbvs);
                COUNTN("cpu.resolver_windows", t.win.windows);
        }
        COUNTN("cpu.trapped_steps", trapped);
        h.events += trapped + s.call_switches;
        h.unusual += (uint32_t) (s.preemptions + s.call_switches);
        h.rec("sched_end", { (int64_t) s.preemptions, (int64_t) s.call_switches, (int64_t) trapped });
        h.sigmix(s.preemptions * 131 + s.call_switches);
        if (mode == 1 && s.preemptions)
                COUNT("sched.racing_cold_start");
        // ---- verdicts
        if (!s.libdata_violation.empty()) {
                rr.fail("C15.libdata_write", s.libdata_violation);
                return;
        }
        for (auto &t : s.tasks) {
                if (t.win.viol) {
                        rr.fail("C16.ud", strf("task %d: instruction class not available under the simulated CPU at step %u", t.id, t.win.total_steps));
                        return;
                }
                if (t.rr.violated()) {
                        rr = t.rr;
                        rr.detail = strf("task %d of %d (interleaved): ", t.id, n) + rr.detail;
                        return;
                }
        }
        // slots: value history within {load-time value, final value}; 8-byte alignment is checked at start-up
        for (size_t i = 0; i < cpu_nslots(); i++) {
                uint64_t fin = cpu_slot_value(i);
                for (uint64_t v : s.slot_values[i])
                        if (v != cpu_slot_init(i) && v != fin) {
                                rr.fail("C15.slot_history", strf("dispatch slot %s held the value %llx which is neither its load-time value nor its final value %llx", cpu_slot_name(i).c_str(), (unsigned long long) v, (unsigned long long) fin));
                                return;
                        }
                h.rec("slot", { (int64_t) i, (int64_t) (fin != cpu_slot_init(i)) });
        }
        for (int i = 0; i < n; i++) {
                Task &t = s.tasks[i];
                if (serial_hash[i] != t.h.h) {
                        rr.fail("C15.interleaved_differs", strf("task %d of %d: results when interleaved with the other tasks (%u switches, %llu resolver pre-emptions) differ from the same program run alone", t.id, n, t.switches, (unsigned long long) s.preemptions));
                        return;
                }
        }
        if (cold)
                for (size_t i = 0; i < cpu_nslots(); i++)
                        if (cpu_slot_value(i) != cpu_slot_init(i) && serial_slots[i] != cpu_slot_init(i) && cpu_slot_value(i) != serial_slots[i]) {
                                rr.fail("C15.slot_final", strf("dispatch slot %s resolved to %s in the interleaved run, to a different implementation serially under the same CPU", cpu_slot_name(i).c_str(), cpu_slot_target(i).c_str()));
                                return;
                        }
        cpu_cold_start();
        COUNT("probe.interleaved_equals_serial");
}

static Json gen_sched(Rng &r0, const std::string &focus, int tier)
{
        Rng r(r0.u64(), "sched.plan");
        Json p = Json::obj();
        p.set("prof", "sched").set("focus", focus);
        int mode = r.chance(1, 2) ? 1 : 0;
        int n = mode == 1 ? (int) (2 + r.below(3)) : (int) (2 + r.below(5));
        p.set("mode", mode).set("cold", (int) r.chance(1, 2));
        Json tasks = Json::arr();
        Json first = Json();
        for (int i = 0; i < n; i++) {
                Json t = Json::obj();
                Json ops = gen_kern_ops(r, mode == 1 ? 1 + (int) r.below(2) : 1 + (int) r.below(5));
                if (mode == 1) { // racing: everybody's first call goes to the same entry point (same kind and sub-kind)
                        if (i == 0)
                                first = ops.a[0];
                        else {
                                ops.a[0].a[0] = first.a[0];
                                ops.a[0].a[4] = first.a[4];
                        }
                }
                t.set("ops", ops);
                tasks.push(t);
        }
        p.set("tasks", tasks);
        Json order = Json::arr();
        for (int k = (int) r.below(40); k > 0; k--)
                order.push((int) r.below(n));
        p.set("order", order);
        Json pre = Json::arr();
        if (mode == 1 || r.chance(1, 2))
                for (int k = (int) (1 + r.below(6)); k > 0; k--) {
                        Json e = Json::arr();
                        e.push((int) r.below(n)).push((int) r.below(r.chance(3, 4) ? 110 : 400));
                        pre.push(e);
                }
        p.set("pre", pre);
        // mostly the host-like CPU (every resolver takes its longest path); sometimes a lesser one
        Json c = r.chance(1, 3) ? gen_cpu_config(r) : Json::obj();
        if (!c.find("l1_ecx"))
                c.set("l1_ecx", 0x18180203u).set("l7_ebx", 0xd0030020u).set("l7_ecx", 0x00005f40u).set("xcr0", 0xe7).set("avoton", 0);
        p.set("cpu", c).set("max_steps", (int) r.below(300));
        Json mem = Json::obj();
        mem.set("fill", r.u64() >> 24).set("regs", 0).set("skip", r.chance(1, 2) ? 0 : (int) r.below(4096));
        p.set("mem", mem);
        (void) tier;
        return p;
}

extern const Profile prof_sched;
const Profile prof_sched = { "sched", gen_sched, exec_sched };
