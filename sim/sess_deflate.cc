// sess_deflate.cc — streaming compression sessions driven through the I/O and memory seams.
// Serves C07 (compression side), C10 (streaming clauses), C11 (producer side), C14, C17, C05.
#include "sim.h"
#include "igzip_lib.h"

static const uint32_t lvl_sizes[4][5] = {
        { ISAL_DEF_LVL0_MIN, ISAL_DEF_LVL0_SMALL, ISAL_DEF_LVL0_MEDIUM, ISAL_DEF_LVL0_LARGE, ISAL_DEF_LVL0_EXTRA_LARGE },
        { ISAL_DEF_LVL1_MIN, ISAL_DEF_LVL1_SMALL, ISAL_DEF_LVL1_MEDIUM, ISAL_DEF_LVL1_LARGE, ISAL_DEF_LVL1_EXTRA_LARGE },
        { ISAL_DEF_LVL2_MIN, ISAL_DEF_LVL2_SMALL, ISAL_DEF_LVL2_MEDIUM, ISAL_DEF_LVL2_LARGE, ISAL_DEF_LVL2_EXTRA_LARGE },
        { ISAL_DEF_LVL3_MIN, ISAL_DEF_LVL3_SMALL, ISAL_DEF_LVL3_MEDIUM, ISAL_DEF_LVL3_LARGE, ISAL_DEF_LVL3_EXTRA_LARGE },
};
uint32_t level_buf_size_for(int level, int cls, uint32_t extra) { return lvl_sizes[level & 3][((unsigned) cls) % 5] + extra; }

uint32_t deflate_bound(uint32_t len, int wrap)
{
        uint32_t blocks = len == 0 ? 1 : (len + 65534) / 65535;
        static const uint32_t w[5] = { 0, 18, 8, 6, 4 };
        return len + 5 * blocks + w[wrap % 5];
}
int wrap_to_ref(int gzip_flag)
{
        static const int m[5] = { RW_RAW, RW_GZIP, RW_GZIP_TRL, RW_ZLIB, RW_ZLIB_TRL };
        return m[((unsigned) gzip_flag) % 5];
}

std::string fault_str(const FaultInfo &fi)
{
        return strf("%s of buffer '%s' (slot %d) offset %ld %s at %s", fault_class_name(fi.cls), fi.label, fi.slot_id, fi.offset,
                    fi.is_write ? "write" : "read", fi.sym);
}
void report_fault(RunResult &rr, Hist &h, const FaultInfo &fi, const char *where)
{
        h.rec("fault", { fi.cls, fi.slot_id, fi.offset, fi.is_write });
        const char *o = "C05.stray";
        switch (fi.cls) {
        case FC_GUARD_AFTER:
        case FC_GUARD_BEFORE: o = "C05.guard"; break;
        case FC_RELEASED: o = "C05.stale"; break;
        case FC_LIBDATA: o = "C15.libdata_write"; break;
        case FC_ABORT: o = "C05.abort"; break;
        case FC_UD: o = "C16.ud"; break;
        case FC_HANG: o = strstr(where, "inflate") ? "C06.hang" : strstr(where, "deflate") ? "C10.hang" : "C05.hang"; break;
        }
        rr.fail(o, strf("%s: %s", where, fault_str(fi).c_str()));
        // "no compression call writes beyond avail_out" is C10's first clause as well as C05's
        if (fi.cls == FC_GUARD_AFTER && fi.is_write && !strncmp(fi.label, "out", 3) && strstr(where, "deflate") && !strstr(where, "inflate") && rr.alt.empty())
                rr.alt = "C10";
}

// Custom Huffman tables from a histogram the library itself collects: over a generated sample, or ("subset": codes only for the
// literals that occur) over the very data that will be compressed.  Returns the tables' slot, nullptr if the library declined.
Slot *make_custom_hufftables(const Json &hf, const std::vector<uint8_t> &data, uint64_t fill, GuardCtx &gc, RunResult &rr, Hist &h, bool &faulted)
{
        Json ds = Json::obj();
        ds.set("k", hf.geti("k")).set("n", 1 + (uint64_t) hf.geti("n") % 20000).set("s", hf.geti("s")).set("p", 7);
        std::vector<uint8_t> sample = make_data(ds);
        bool subset = hf.geti("subset") != 0 && !data.empty();
        if (subset)
                sample = data;
        Slot *s_hist = g_arena.alloc(sizeof(struct isal_huff_histogram), PLACE_END, "histogram", 2, 8);
        Slot *s_samp = g_arena.alloc(sample.size(), PLACE_END, "hist_sample", 0, 1);
        Slot *s_huff = g_arena.alloc(sizeof(struct isal_hufftables), PLACE_END, "hufftables", fill + 3, 8);
        if (!s_hist || !s_samp || !s_huff) {
                faulted = true;
                return nullptr;
        }
        memcpy(s_samp->data, sample.data(), sample.size());
        memset(s_hist->data, 0, s_hist->len);
        int cr = 0;
        if (GUARDED(gc, {
                    isal_update_histogram(s_samp->data, (int) sample.size(), (struct isal_huff_histogram *) s_hist->data);
                    cr = subset ? isal_create_hufftables_subset((struct isal_hufftables *) s_huff->data, (struct isal_huff_histogram *) s_hist->data)
                                : isal_create_hufftables((struct isal_hufftables *) s_huff->data, (struct isal_huff_histogram *) s_hist->data);
            })) {
                report_fault(rr, h, gc.fi, "isal_create_hufftables");
                faulted = true;
                return nullptr;
        }
        g_arena.release(s_samp);
        g_arena.release(s_hist);
        h.rec("mkhuff", { cr, (int64_t) hash_bytes(s_huff->data, s_huff->len) });
        if (cr != 0)
                return nullptr;
        COUNT(subset ? "cfg.huff_custom_subset" : "cfg.huff_custom");
        return s_huff;
}

namespace
{
struct DeflateSession {
        const Json &plan;
        RunResult &rr;
        Hist &h;
        std::vector<uint8_t> data, dict, outbuf;
        Slot *s_stream = nullptr, *s_lbuf = nullptr, *s_in = nullptr, *s_huff = nullptr, *s_dictstr = nullptr;
        struct isal_zstream *st = nullptr;
        size_t fed = 0;     // bytes of data handed to the library's view (in current or past chunks)
        bool eos = false;
        bool last_drained = true;
        int level = 0, wrap = 0, hb = 0;
        uint64_t fill = 0, regs = 0;
        int place = 0;
        bool rel = true, dangling = false, recycle = false, contig = false;
        uint16_t eosval = 1;
        std::vector<uint8_t> lead_in;
        Slot *s_all = nullptr; // contiguous mode: the whole input in one mapping, chunks are consecutive slices of it
        RefInflate ref;
        size_t eff_dict_len = 0;
        const uint8_t *eff_dict = nullptr;
        uint32_t calls = 0;
        bool full_flush_floor_pending = false;
        std::string focus;
        bool avoid_f2, avoid_f4;
        GuardCtx gc;

        DeflateSession(const Json &p, RunResult &r, Hist &hh) : plan(p), rr(r), h(hh) {}

        bool setup()
        {
                focus = plan.gets("focus");
                avoid_f2 = avoiding(plan, "F2");
                avoid_f4 = avoiding(plan, "F4");
                data = make_data(plan.at("data"));
                if (const char *dd = getenv("SIM_DUMP_DATA")) { // diagnostic hand runs only
                        FILE *f = fopen(dd, "wb");
                        if (f) {
                                fwrite(data.data(), 1, data.size(), f);
                                fclose(f);
                        }
                }
                {
                        const Json &djz = plan.at("dict");
                        if (djz.geti("zhead") && (uint64_t) djz.geti("mode") % 3 && data.size() >= 8) { // see the dictionary set-up below
                                size_t zo = (uint64_t) djz.geti("zhead") % (data.size() - 7);
                                for (size_t q = 0; q < 4; q++)
                                        data[zo + q] = 0;
                                data[zo + 4] = 0x51;
                        }
                }
                // contiguous mode with a lead-in: the stream starts `lead` bytes into the caller's (periodic) array, so the memory just
                // before the first input byte is readable and equals what follows - a match reaching before the start of the stream
                // then yields an undecodable stream instead of a fault
                lead_in.clear();
                if (plan.at("mem").geti("contig")) {
                        size_t lead = (size_t) ((uint64_t) plan.at("mem").geti("lead") % 65537);
                        if (lead && data.size() > lead) {
                                lead_in.assign(data.begin(), data.begin() + lead);
                                data.erase(data.begin(), data.begin() + lead);
                        }
                }
                level = (int) ((uint64_t) plan.geti("level") % 4);
                wrap = (int) ((uint64_t) plan.geti("wrap") % 5);
                hb = (int) plan.geti("hb");
                if (hb != 0 && (hb < 9 || hb > 15))
                        hb = 9 + (int) ((uint64_t) hb % 7);
                const Json &m = plan.at("mem");
                rel = m.geti("rel", 1) != 0;
                place = (int) (m.geti("place") & 1);
                fill = (uint64_t) m.geti("fill");
                dangling = m.geti("dangling") != 0;
                recycle = m.geti("recycle") != 0;
                contig = m.geti("contig") != 0;
                eosval = (uint16_t) plan.geti("eosval", 1);
                if (!eosval)
                        eosval = 1;
                regs = (uint64_t) m.geti("regs");
                if (const char *e = getenv("SIM_REGS"))
                        regs = strtoull(e, 0, 0);

                s_stream = g_arena.alloc(sizeof(struct isal_zstream), PLACE_END, "zstream", fill + 1, 16);
                if (!s_stream)
                        return false;
                st = (struct isal_zstream *) s_stream->data;
                if (GUARDED(gc, isal_deflate_init(st))) {
                        report_fault(rr, h, gc.fi, "isal_deflate_init");
                        return false;
                }
                st->next_in = nullptr; // the caller's fields: init does not touch them
                st->avail_in = 0;
                st->next_out = nullptr;
                st->avail_out = 0;
                st->level = level;
                st->gzip_flag = wrap;
                bool hb_late = plan.at("dict").geti("hb_late") != 0; // the window size is a plain public field: set after the dictionary call
                st->hist_bits = hb_late ? 0 : hb;
                const Json &lb = plan.at("lb");
                uint32_t lbs = level_buf_size_for(level, (int) lb.ai(0), (uint32_t) ((uint64_t) lb.ai(1) % 70000));
                if (level == 0 && lb.ai(2) == 0) {
                        st->level_buf = nullptr;
                        st->level_buf_size = 0;
                } else {
                        s_lbuf = g_arena.alloc(lbs, PLACE_END, "level_buf", fill + 2, 16);
                        if (!s_lbuf)
                                return false;
                        st->level_buf = s_lbuf->data;
                        st->level_buf_size = lbs;
                }
                // hufftables
                const Json &hf = plan.at("huff");
                int ht = (int) ((uint64_t) hf.geti("t") % 3);
                if (ht == IGZIP_HUFFTABLE_CUSTOM) {
                        bool faulted = false;
                        s_huff = make_custom_hufftables(hf, data, fill, gc, rr, h, faulted);
                        if (faulted)
                                return false;
                        if (s_huff) {
                                int sr = isal_deflate_set_hufftables(st, (struct isal_hufftables *) s_huff->data, IGZIP_HUFFTABLE_CUSTOM);
                                h.rec("sethuff", { sr, ht });
                        }
                } else {
                        int sr = isal_deflate_set_hufftables(st, nullptr, ht);
                        h.rec("sethuff", { sr, ht });
                        if (sr != 0)
                                rr.fail("C07.sethuff", strf("isal_deflate_set_hufftables(type %d) on a fresh stream returned %d", ht, sr));
                }
                // dictionary
                const Json &dj = plan.at("dict");
                int dmode = (int) ((uint64_t) dj.geti("mode") % 3);
                if (dmode) {
                        uint32_t dn = (uint32_t) ((uint64_t) dj.geti("n") % 70001);
                        if (dn == 0)
                                dn = 1;
                        dict.resize(dn);
                        Rng dr((uint64_t) dj.geti("s"), "dict");
                        int dk = (int) dr.below(3);
                        for (auto &b : dict)
                                b = dk == 0 ? (uint8_t) dr.u64() : dk == 1 ? (uint8_t) ('a' + dr.below(4)) : (uint8_t) dr.below(2);
                        if (dj.geti("share") && !data.empty()) { // tail of the dictionary shares content with the data
                                size_t sh = std::min<size_t>(std::min<size_t>(dn, data.size()), 1 + (uint64_t) dj.geti("share") % 40000);
                                size_t off = (uint64_t) dj.geti("shoff") % (data.size() - sh + 1);
                                // shared content at the tail (short distances) or at the far end of what the window retains
                                size_t eff = dn > IGZIP_HIST_SIZE ? IGZIP_HIST_SIZE : dn;
                                if (sh > eff)
                                        sh = eff;
                                size_t at = dj.geti("shpos") ? dn - eff : dn - sh;
                                memcpy(dict.data() + at, data.data() + off, sh);
                        }
                        if (dj.geti("zhead") && dn >= 5 && data.size() >= 8) {
                                // the part of the dictionary the window keeps begins with a byte pattern (four zero bytes, or the data's own
                                // first bytes) that occurs nowhere else in it but does occur in the data: the very first dictionary position
                                // is then the only match candidate - the one an off-by-one in the dictionary hashing would move outside
                                size_t eff = dn > IGZIP_HIST_SIZE ? IGZIP_HIST_SIZE : dn, at0 = dn - eff;
                                for (size_t q = at0 + 4; q < dn; q++)
                                        if (dict[q] == 0)
                                                dict[q] = 0x51;
                                for (size_t q = 0; q < 4; q++)
                                        dict[at0 + q] = 0;
                                dict[at0 + 4] = 0x51; // the data carries 00 00 00 00 51 (planted when the data was made, before any histogram)
                                COUNT("cfg.dict_head_unique_pattern");
                        }
                        Slot *s_dict = g_arena.alloc(dn, place, "dict", 0, 1);
                        if (!s_dict)
                                return false;
                        memcpy(s_dict->data, dict.data(), dn);
                        int dr_ret = 0;
                        if (dmode == 1) {
                                if (GUARDED(gc, dr_ret = isal_deflate_set_dict(st, s_dict->data, dn))) {
                                        report_fault(rr, h, gc.fi, "isal_deflate_set_dict");
                                        return false;
                                }
                                COUNT("cfg.dict_set");
                        } else {
                                s_dictstr = g_arena.alloc(sizeof(struct isal_dict), PLACE_END, "isal_dict", fill + 4, 8);
                                if (!s_dictstr)
                                        return false;
                                ((struct isal_dict *) s_dictstr->data)->level = 0; // documented input: none; field is read before written
                                if (GUARDED(gc, {
                                            dr_ret = isal_deflate_process_dict(st, (struct isal_dict *) s_dictstr->data, s_dict->data, dn);
                                            if (dr_ret == 0)
                                                    dr_ret = isal_deflate_reset_dict(st, (struct isal_dict *) s_dictstr->data);
                                    })) {
                                        report_fault(rr, h, gc.fi, "isal_deflate_process_dict/reset_dict");
                                        return false;
                                }
                                COUNT("cfg.dict_processed");
                        }
                        if (rel)
                                g_arena.release(s_dict);
                        h.rec("dict", { dmode, dn, dr_ret });
                        if (dr_ret != 0) {
                                rr.fail("C17.dict_refused", strf("dictionary call mode %d len %u on a fresh stream returned %d", dmode, dn, dr_ret));
                                return false;
                        }
                        eff_dict_len = dn > IGZIP_HIST_SIZE ? IGZIP_HIST_SIZE : dn;
                        eff_dict = dict.data() + dn - eff_dict_len;
                        if (dn > IGZIP_HIST_SIZE)
                                COUNT("probe.dict_longer_than_window");
                }
                st->hist_bits = hb;
                ref.init(wrap_to_ref(wrap), eff_dict, eff_dict_len);
                h.rec("open", { level, wrap, hb, (int64_t) st->level_buf_size, ht, dmode, (int64_t) data.size() });
                h.sigmix(level * 131 + wrap * 17 + hb + ht * 7 + dmode * 3);
                return true;
        }

        // one isal_deflate call. feed: new bytes to append; out: size of the output buffer offered
        bool call(uint32_t feed, uint32_t out, int flush, bool want_eos, int flags, bool in_tail)
        {
                uint32_t pending = st->avail_in;
                uint32_t remaining = (uint32_t) (data.size() - fed);
                int st_before = st->internal_state.state;
                if ((flags & 1) && pending > 0)
                        feed = 0; // classic discipline: refill only when the library took everything
                if ((flags & 2) && !last_drained)
                        feed = 0; // drain-before-refill
                if (feed > remaining)
                        feed = remaining;
                if (avoid_f2 && feed + pending > 0 && (st_before == ZSTATE_SYNC_FLUSH || st_before == ZSTATE_TMP_SYNC_FLUSH)) {
                        // steer away from open finding F2: do not offer input while a sync-flush marker is pending
                        // (pending input stays parked outside the library's view)
                        COUNT("steer.F2");
                        if (pending) {
                                // cannot hide already-offered input; give the marker room instead
                                if (out < 16)
                                        out = 16;
                        }
                        feed = 0;
                }
                bool reloc = (flags & 4) != 0;
                if (feed > 0 && !last_drained)
                        COUNT("io.refill_before_drain");
                if (feed == 0 && pending == 0 && !eos && !want_eos)
                        COUNT("io.idle_call");
                // ---- input placement
                if (contig) {
                        // the application compresses one large mapped array piecewise: what lies before next_in is earlier data, readable
                        // and (for periodic data) equal to what follows, so a match reaching behind a flush point decodes to a wrong
                        // suffix instead of faulting
                        if (!s_all) {
                                s_all = g_arena.alloc(lead_in.size() + data.size(), place, "in_whole", 0, 1);
                                if (!s_all)
                                        return budget();
                                memcpy(s_all->data, lead_in.data(), lead_in.size());
                                memcpy(s_all->data + lead_in.size(), data.data(), data.size());
                                if (!lead_in.empty())
                                        COUNT("mem.contiguous_input_with_lead_in");
                        }
                        st->next_in = s_all->data + lead_in.size() + (fed - pending);
                        st->avail_in = pending + feed;
                        fed += feed;
                        if (feed)
                                COUNT("mem.contiguous_input_slice");
                } else if (feed > 0 || (reloc && pending > 0)) {
                        Slot *ns = g_arena.alloc(pending + feed, (flags & 32) ? (place ^ 1) : place, "in_chunk", 0, 1);
                        if (!ns)
                                return budget();
                        if (pending) {
                                memcpy(ns->data, st->next_in, pending);
                                if (reloc || feed)
                                        COUNT("io.relocate_pending_input");
                        }
                        memcpy(ns->data + pending, data.data() + fed, feed);
                        retire_in();
                        s_in = ns;
                        st->next_in = ns->data;
                        st->avail_in = pending + feed;
                        fed += feed;
                } else if (pending == 0 && !dangling) {
                        // zero-length call with a fresh empty region
                        Slot *ns = g_arena.alloc(0, place, "in_empty", 0, 1);
                        if (!ns)
                                return budget();
                        retire_in();
                        s_in = ns;
                        st->next_in = ns->data + (place == PLACE_END ? 0 : 0);
                        COUNT("io.zero_len_in");
                } else if (pending == 0)
                        COUNT("io.dangling_next_in");
                if (want_eos && fed == data.size()) {
                        if (!eos && calls > 0 && pending + feed == 0)
                                COUNT("io.late_eos");
                        eos = true;
                }
                if (eos)
                        st->end_of_stream = eosval; // "non-zero if this is the last input buffer": 1, or any other non-zero value
                if ((uint32_t) flush > 2)
                        flush = flush % 3;
                if (st->flush != flush && calls > 0)
                        COUNT("io.flush_change");
                st->flush = (uint16_t) flush;
                if (flush == SYNC_FLUSH)
                        COUNT("io.sync_flush_req");
                if (flush == FULL_FLUSH)
                        COUNT("io.full_flush_req");
                // ---- output placement
                Slot *so = g_arena.alloc(out, (flags & 16) ? PLACE_START : PLACE_END, "out_chunk", fill + 5 + calls, 1);
                if (!so)
                        return budget();
                st->next_out = so->data;
                st->avail_out = out;
                if (out == 0)
                        COUNT("io.full_sink");
                else if (out < 8)
                        COUNT("io.tiny_sink");
                uint32_t ai0 = st->avail_in, ao0 = out, ti0 = st->total_in, to0 = st->total_out;
                uint8_t *ni0 = st->next_in, *no0 = st->next_out;
                int ret = 0;
                calls++;
                h.calls++;
                scramble_regs(regs ? regs + calls : 0);
                if (GUARDED(gc, ret = isal_deflate(st))) {
                        report_fault(rr, h, gc.fi, strf("isal_deflate call %u (feed %u pending %u out %u flush %d eos %d state %d)", calls, feed, pending, out, flush, (int) eos, st_before).c_str());
                        return false;
                }
                int st_after = st->internal_state.state;
                uint32_t consumed = ai0 - st->avail_in, produced = ao0 - st->avail_out;
                // ---- per-call invariants (C10 accounting clauses)
                if (ret != COMP_OK)
                        rr.fail("C07.ret", strf("isal_deflate returned %d on legal parameters (call %u)", ret, calls));
                if (st->avail_in > ai0 || st->avail_out > ao0)
                        rr.fail("C10.accounting", strf("avail grew: avail_in %u->%u avail_out %u->%u (call %u)", ai0, st->avail_in, ao0, st->avail_out, calls));
                else if (st->next_in != ni0 + consumed || st->total_in != ti0 + consumed || st->next_out != no0 + produced ||
                         st->total_out != to0 + produced)
                        rr.fail("C10.accounting", strf("call %u: consumed %u produced %u but next_in %+ld total_in %+d next_out %+ld total_out %+d", calls, consumed, produced, (long) (st->next_in - ni0), (int) (st->total_in - ti0), (long) (st->next_out - no0), (int) (st->total_out - to0)));
                if (!g_arena.canary_ok(so) || !g_arena.canary_ok(s_stream) || !g_arena.canary_ok(s_lbuf))
                {
                        rr.fail("C05.canary", strf("bytes outside a declared buffer changed (call %u, out %u)", calls, out));
                        if (!g_arena.canary_ok(so) && rr.alt.empty())
                                rr.alt = "C10";
                }
                if ((unsigned) st_after > ZSTATE_TMP_END)
                        rr.fail("C07.state", strf("illegal state %d", st_after));
                if (rr.violated())
                        return false;
                outbuf.insert(outbuf.end(), so->data, so->data + produced);
                uint64_t oh = hash_bytes(so->data, produced);
                if (g_trace) {
                        std::string hx;
                        for (uint32_t q = 0; q < produced && q < 48; q++)
                                hx += strf("%02x", so->data[q]);
                        h.log.push_back("   out=" + hx);
                }
                g_arena.release(so);
                last_drained = st->avail_out > 0;
                h.rec("defl", { feed, out, flush, (int) eos, ret, consumed, produced, st_before, st_after, st->total_in, st->total_out, (int64_t) oh });
                h.sigmix(((uint64_t) st_before << 40) ^ ((uint64_t) st_after << 32) ^ (size_class(consumed) << 16) ^ (size_class(produced) << 8) ^ flush ^ ((uint64_t) eos << 4));
                {
                        static uint64_t *tr[ZSTATE_TMP_END + 1][ZSTATE_TMP_END + 1];
                        uint64_t *&c = tr[st_before][st_after];
                        if (!c)
                                c = &g_cnt.m[strf("transition.deflate.%d>%d", st_before, st_after)];
                        ++*c;
                }
                if (st_after >= ZSTATE_TMP_NEW_HDR && st_after != st_before) {
                        COUNT("probe.zstate_tmp_entered");
                        h.unusual++;
                }
                if (out < 8 || feed == 0 || flush)
                        h.unusual++;
                // ---- release consumed input (memory seam)
                if (st->avail_in == 0 && s_in && rel) {
                        if (avoid_f4 && level >= 1 && flush == FULL_FLUSH && st_after != ZSTATE_NEW_HDR && st_after != ZSTATE_END) {
                                COUNT("steer.F4"); // keep the chunk alive until the pending full flush completes
                        } else {
                                retire_in();
                                COUNT("mem.release_on_consume");
                        }
                }
                // ---- progress (see DESIGN §6 C07): any call made with end_of_stream set, every input byte already handed over and a
                // non-empty output buffer that neither consumes nor produces is suspect; it is a verdict only if the whole state is
                // byte-identical across one more identical call (in the tail that is the next tail call; elsewhere one is issued now)
                bool stalled = (in_tail || (eos && fed == data.size() && st->avail_in == 0 && out > 0)) && consumed == 0 && produced == 0 && st_after != ZSTATE_END && st_after == st_before;
                if (stalled) {
                        uint64_t hc = state_hash();
                        if (suspect && hc == suspect_hash) {
                                // does a roomy buffer help?  If not even that makes progress, C07's last sentence fails as well
                                bool roomy_helps = true;
                                if (!probing && out < 8192) {
                                        probing = true;
                                        suspect = false;
                                        bool ok = call(0, 8192, flush, want_eos, flags & 48, false);
                                        probing = false;
                                        if (ok && !rr.violated())
                                                roomy_helps = state_hash() != hc;
                                        if (rr.violated())
                                                return false;
                                }
                                rr.fail("C10.stuck", strf("two consecutive calls (%u) with all input offered, EOS set and %u bytes of output space left the whole stream state byte-identical in state %d: with this buffer size the end state is never reached%s", calls, out, st_after, roomy_helps ? "" : "; 8192 bytes of output space make no difference either"));
                                if (!roomy_helps)
                                        rr.alt = "C07";
                                return false;
                        }
                        suspect = true;
                        suspect_hash = hc;
                        COUNT(in_tail ? "probe.no_progress_tail_call" : "probe.no_progress_eos_call");
                        if (!in_tail && !probing) {
                                probing = true;
                                bool ok = call(0, out, flush, want_eos, flags & 48, false);
                                probing = false;
                                suspect = false;
                                if (!ok)
                                        return false;
                        }
                } else
                        suspect = false;
                // ---- flush point oracles (C14)
                if ((flush == SYNC_FLUSH || flush == FULL_FLUSH) && st->avail_in == 0 && st->avail_out > 0 && !eos && st_after != ZSTATE_END &&
                    st->total_in > 0)
                        if (!flush_point(flush))
                                return false;
                return true;
        }

        bool suspect = false, probing = false;
        uint64_t suspect_hash = 0;
        uint64_t state_hash()
        {
                struct isal_zstate tmp;
                memcpy(&tmp, &st->internal_state, sizeof tmp);
                tmp.bitbuf.m_out_buf = tmp.bitbuf.m_out_end = tmp.bitbuf.m_out_start = nullptr;
                uint64_t hh = hash_bytes(&tmp, sizeof tmp);
                hh = mix64(hh, st->avail_in);
                hh = mix64(hh, st->total_in);
                hh = mix64(hh, st->total_out);
                hh = mix64(hh, st->end_of_stream);
                hh = mix64(hh, st->flush);
                if (s_lbuf)
                        hh = hash_bytes(s_lbuf->data, s_lbuf->len, hh);
                return hh;
        }
        void retire_in()
        {
                if (!s_in)
                        return;
                if (recycle && s_in->state == 1) { // overwrite instead of unmapping: a stale read becomes a wrong match
                        memset(s_in->data, 0x5a, s_in->len);
                        COUNT("mem.recycle_buffer");
                } else
                        g_arena.release(s_in);
                s_in = nullptr;
        }
        bool budget()
        {
                COUNT("run.arena_budget_exhausted");
                h.rec("budget", {});
                return false;
        }

        bool flush_point(int flush)
        {
                COUNT(flush == FULL_FLUSH ? "probe.full_flush_point" : "probe.sync_flush_point");
                h.unusual++;
                size_t n = outbuf.size();
                h.rec("flushpt", { flush, (int64_t) n, st->total_in });
                bool marker = n >= 4 && outbuf[n - 4] == 0 && outbuf[n - 3] == 0 && outbuf[n - 2] == 0xff && outbuf[n - 1] == 0xff;
                int s = ref.feed(outbuf.data(), n);
                if (s < 0) {
                        rr.fail("C14.prefix_undecodable", strf("at flush point (out %zu bytes, total_in %u) reference decoder: %s at bit %llu", n, st->total_in, ref_status_name(s), (unsigned long long) ref.err_bit));
                        return false;
                }
                if (ref.out.size() > st->total_in || memcmp(ref.out.data(), data.data(), ref.out.size())) {
                        rr.fail(eff_dict ? "C17.dict_roundtrip" : "C07.roundtrip", strf("prefix at flush point decodes to wrong bytes (decoded %zu, fed %u%s)", ref.out.size(), st->total_in, eff_dict ? "; session primed with a dictionary, decoder primed with its last window-size bytes" : ""));
                        return false;
                }
                if (ref.out.size() != st->total_in) {
                        rr.fail("C14.incomplete", strf("flush point after call %u: %u bytes fed, only %zu decodable from the %zu output bytes (state %d)", calls, st->total_in, ref.out.size(), n, st->internal_state.state));
                        return false;
                }
                if (!marker || !ref.at_block_boundary() || ref.bitpos != (uint64_t) n * 8) {
                        rr.fail("C14.marker", strf("flush point after call %u: output (%zu bytes) does not end with an empty stored block on a block boundary (marker %d, boundary %d, bitpos %llu)", calls, n, (int) marker, (int) ref.at_block_boundary(), (unsigned long long) ref.bitpos));
                        return false;
                }
                if (flush == FULL_FLUSH) {
                        ref.set_floor();
                        COUNT("probe.full_flush_floor_set");
                }
                return true;
        }

        void finish()
        {
                if (st->internal_state.state != ZSTATE_END)
                        return;
                size_t n = outbuf.size();
                int s = ref.feed(outbuf.data(), n);
                h.rec("end", { (int64_t) n, s, (int64_t) hash_bytes(outbuf.data(), n) });
                bool data_ok = ref.out.size() == data.size() && !memcmp(ref.out.data(), data.data(), data.size());
                if (eff_dict && (!data_ok || (s != REF_DONE && s != REF_ERR_TRAILER))) {
                        rr.fail("C17.dict_roundtrip", strf("compression primed with a %zu-byte dictionary (mode %d), decoder primed with its last %zu bytes: reference %s, decoded %zu of %zu bytes, content %s", dict.size(), (int) plan.at("dict").geti("mode"), eff_dict_len, ref_status_name(s), ref.out.size(), data.size(), data_ok ? "equal" : "differs"));
                        return;
                }
                if (s == REF_ERR_TRAILER && data_ok) {
                        rr.fail("C11.trailer", strf("trailer stored %08x/%u, reference checksum of the %zu decoded bytes differs (wrap %d)", ref.trailer_crc, ref.trailer_isize, ref.out.size(), wrap));
                        return;
                }
                if (s == REF_ERR_DIST && !eff_dict) {
                        // C17: "none reaches before the first byte of the stream"; equally a stream that does not decode to its input (C07)
                        rr.fail("C17.before_start", strf("a match in the produced stream reaches before the first byte of the stream (reference decoder: %s at bit %llu of %zu output bytes, %zu bytes decoded so far)", ref_status_name(s), (unsigned long long) ref.err_bit, n, ref.out.size()));
                        rr.alt = "C07";
                        return;
                }
                if (s != REF_DONE && s != REF_ERR_TRAILER) {
                        rr.fail("C07.roundtrip", strf("reference decoder on %zu output bytes: %s at bit %llu", n, ref_status_name(s), (unsigned long long) ref.err_bit));
                        return;
                }
                if (!data_ok) {
                        rr.fail("C07.roundtrip", strf("decoded %zu bytes, input was %zu bytes, content %s", ref.out.size(), data.size(), ref.out.size() == data.size() ? "differs" : "length differs"));
                        return;
                }
                if (ref.end_byte != n) {
                        rr.fail("C07.trailing", strf("stream ends at byte %zu but %zu bytes were produced", ref.end_byte, n));
                        return;
                }
                if (st->total_in != data.size() || st->total_out != n)
                        rr.fail("C10.accounting", strf("final total_in %u (input %zu) total_out %u (output %zu)", st->total_in, data.size(), st->total_out, n));
                if (ref.floor_violated)
                        rr.fail("C14.full_flush_dependence", strf("match at output position %llu with distance %llu reaches before the last completed full flush point", (unsigned long long) ref.floor_viol_pos, (unsigned long long) ref.floor_viol_dist));
                // C17: window
                int w = eff_hist_bits(hb);
                uint32_t lim = 1u << w;
                if (lim > IGZIP_HIST_SIZE)
                        lim = IGZIP_HIST_SIZE;
                if (ref.max_dist > lim)
                        rr.fail("C17.window", strf("match distance %u exceeds the announced window 2^%d", ref.max_dist, w));
                if (wrap == IGZIP_ZLIB && ref.zl.present && (unsigned) (ref.zl.cmf >> 4) + 8 < (unsigned) w)
                        rr.fail("C17.zlib_cinfo", strf("zlib header CINFO %u advertises less than the 2^%d window in use", ref.zl.cmf >> 4, w));
                if (ref.max_dist > 0)
                        COUNT("probe.matches_present");
                if (ref.max_dist + 4 >= lim && ref.max_dist <= lim)
                        COUNT("probe.dist_near_window");
                if (ref.min_reach < 0)
                        COUNT("probe.match_into_dict");
                for (auto &b : ref.blocks)
                        if (b.type == 0 && level >= 1 && b.out_end > b.out_start) {
                                COUNT("probe.type0_at_level>=1");
                                break;
                        }
                if (ref.blocks.size() > 1)
                        COUNT("probe.multi_block");
                COUNT("run.reached_end");
        }

        void run()
        {
                if (!setup())
                        return;
                const Json &ops = plan.at("ops");
                for (size_t i = 0; i < ops.a.size() && st->internal_state.state != ZSTATE_END; i++) {
                        const Json &op = ops.a[i];
                        int kind = (int) op.ai(0);
                        if (kind == 0) {
                                if (!call((uint32_t) ((uint64_t) op.ai(1) % (1u << 24)), (uint32_t) ((uint64_t) op.ai(2) % (1u << 24)), (int) op.ai(3), op.ai(4) != 0, (int) op.ai(5), false))
                                        return;
                        } else if (kind == 1) { // dictionary call at an arbitrary moment
                                if (!late_dict((uint32_t) op.ai(1), (uint64_t) op.ai(2)))
                                        return;
                        } else if (kind == 4) { // invalid parameter injected at a later call (C10): refusal without side effects, then the session is over
                                inject_invalid((int) op.ai(1), (uint64_t) op.ai(2));
                                return;
                        } else if (kind == 2) { // hufftables call at an arbitrary moment
                                int ty = (int) ((uint64_t) op.ai(1) % 3);
                                int before = st->internal_state.state;
                                if (ty == IGZIP_HUFFTABLE_CUSTOM && !s_huff)
                                        ty = IGZIP_HUFFTABLE_STATIC;
                                int r = isal_deflate_set_hufftables(st, s_huff ? (struct isal_hufftables *) s_huff->data : nullptr, ty);
                                h.rec("sethuff_mid", { ty, before, r });
                                if (before != ZSTATE_NEW_HDR) {
                                        COUNT("fault.hufftables_in_wrong_state");
                                        if (r == 0)
                                                rr.fail("C07.sethuff_midblock", strf("hufftables installed while a block is open (state %d)", before));
                                } else
                                        COUNT("io.hufftables_changed");
                        }
                        if (rr.violated())
                                return;
                }
                // ---- tail: everything left, EOS, ample (or profile-chosen) buffers; must reach END
                const Json &tl = plan.at("tail");
                uint32_t tin = (uint32_t) ((uint64_t) tl.ai(0) % (1u << 24)), tout = (uint32_t) ((uint64_t) tl.ai(1) % (1u << 24));
                if (tout == 0)
                        tout = 1;
                uint32_t budget_calls = 4 * ((uint32_t) data.size() + deflate_bound((uint32_t) data.size(), wrap)) + 1000;
                uint32_t tail_calls = 0;
                while (st->internal_state.state != ZSTATE_END) {
                        uint32_t feed = tin ? tin : (uint32_t) data.size();
                        // strict progress is demanded only when the call cannot be waiting for anything:
                        bool strict = (fed + std::min<size_t>(feed, data.size() - fed)) == data.size();
                        if (!call(feed, tout, tl.ai(2) ? (int) tl.ai(2) : NO_FLUSH, true, 0, strict && tout >= 1))
                                return;
                        if (++tail_calls > budget_calls) {
                                rr.fail("C10.budget", strf("no END after %u tail calls (input %zu bytes, out chunk %u)", tail_calls, data.size(), tout));
                                return;
                        }
                }
                finish();
        }

        void inject_invalid(int which, uint64_t val)
        {
                which = 1 + (int) ((unsigned) which % 4);
                if (which >= 3 && level == 0)
                        which = 1 + (which & 1);
                uint32_t feed = (uint32_t) std::min<size_t>(data.size() - fed, 1 + val % 64);
                uint32_t pending = st->avail_in;
                Slot *si = g_arena.alloc(pending + feed, place, "in_chunk", 0, 1), *so = g_arena.alloc(64, PLACE_END, "out_chunk", fill + 77, 1);
                if (!si || !so) {
                        budget();
                        return;
                }
                if (pending)
                        memcpy(si->data, st->next_in, pending);
                memcpy(si->data + pending, data.data() + fed, feed);
                st->next_in = si->data;
                st->avail_in = pending + feed;
                st->next_out = so->data;
                st->avail_out = 64;
                std::vector<uint8_t> out_before(so->data, so->data + 64);
                switch (which) {
                case 1:
                        st->level = 4 + (uint32_t) (val % 1000);
                        COUNT("fault.bad_level");
                        break;
                case 2:
                        st->flush = (uint16_t) (3 + val % 60000);
                        COUNT("fault.bad_flush");
                        break;
                case 3:
                        st->level_buf = nullptr;
                        COUNT("fault.null_level_buf");
                        break;
                default: {
                        uint32_t minsz = level_buf_size_for(level, 0, 0);
                        st->level_buf_size = minsz - 1 - (uint32_t) (val % minsz);
                        COUNT("fault.undersized_level_buf");
                }
                }
                uint32_t ti0 = st->total_in, to0 = st->total_out, ai0 = st->avail_in;
                int st0 = st->internal_state.state;
                int ret = 0;
                calls++;
                h.calls++;
                h.unusual++;
                if (GUARDED(gc, ret = isal_deflate(st))) {
                        report_fault(rr, h, gc.fi, "isal_deflate (invalid parameter)");
                        return;
                }
                h.rec("inject", { which, ret, st0, st->internal_state.state });
                h.sigmix(0xbad0 + which);
                if (ret >= 0) {
                        rr.fail("C10.invalid_param_accepted", strf("streaming call %u with invalid parameter kind %d (level %u flush %u level_buf %s size %u) returned %d", calls, which, st->level, st->flush, st->level_buf ? "set" : "NULL", st->level_buf_size, ret));
                        return;
                }
                if (memcmp(out_before.data(), so->data, 64) || st->next_out != so->data || st->avail_out != 64 || st->total_out != to0) {
                        rr.fail("C10.invalid_param_output", strf("streaming call %u: invalid parameter kind %d rejected (%d) after output was produced or output counters moved", calls, which, ret));
                        return;
                }
                if (st->next_in != si->data || st->avail_in != ai0 || st->total_in != ti0) {
                        rr.fail("C10.invalid_param_counters", strf("streaming call %u: invalid parameter kind %d rejected (%d) but input counters moved", calls, which, ret));
                        return;
                }
                COUNT("probe.invalid_param_refused");
        }

        bool late_dict(uint32_t n, uint64_t seed)
        {
                n = n % 40000 + 1;
                int before = st->internal_state.state;
                // only the unambiguous wrong states are exercised: a block is open or input is buffered unprocessed
                bool legal = before == ZSTATE_NEW_HDR && st->internal_state.b_bytes_processed == st->internal_state.b_bytes_valid;
                if (legal || before == ZSTATE_END)
                        return true;
                Slot *sd = g_arena.alloc(n, place, "late_dict", seed, 1);
                if (!sd)
                        return budget();
                // either entry point: the dictionary set directly, or pre-processed (legal in any state: it only reads the level) and
                // then installed with isal_deflate_reset_dict
                bool via_reset = (seed >> 7) & 1;
                Slot *sds = via_reset ? g_arena.alloc(sizeof(struct isal_dict), PLACE_END, "late_dict_struct", seed + 1, 8) : nullptr;
                if (via_reset && !sds)
                        return budget();
                // twin oracle: refusal must leave the stream's bytes (and the level buffer) untouched
                auto snapshot = [&]() {
                        uint64_t x = hash_bytes(&st->internal_state, sizeof(st->internal_state));
                        return s_lbuf ? hash_bytes(s_lbuf->data, s_lbuf->len, x) : x;
                };
                uint64_t before_hash = snapshot();
                int r = 0, pr = 0;
                if (GUARDED(gc, {
                            if (via_reset) {
                                    struct isal_dict *ds = (struct isal_dict *) sds->data;
                                    ds->level = 0; // the one field process_dict validates before filling the structure
                                    pr = isal_deflate_process_dict(st, ds, sd->data, n);
                                    before_hash = snapshot();
                                    r = pr ? pr : isal_deflate_reset_dict(st, ds);
                            } else
                                    r = isal_deflate_set_dict(st, sd->data, n);
                    })) {
                        report_fault(rr, h, gc.fi, via_reset ? "isal_deflate_process_dict / isal_deflate_reset_dict (wrong state)" : "isal_deflate_set_dict (wrong state)");
                        return false;
                }
                g_arena.release(sd);
                COUNT(via_reset ? "fault.reset_dict_in_wrong_state" : "fault.dict_in_wrong_state");
                h.unusual++;
                h.rec("late_dict", { n, before, r, via_reset });
                if (r == 0) {
                        rr.fail("C17.dict_wrong_state_accepted", strf("%s accepted in state %d with %u/%u buffered", via_reset ? "isal_deflate_reset_dict" : "isal_deflate_set_dict", before, st->internal_state.b_bytes_processed, st->internal_state.b_bytes_valid));
                        return false;
                }
                if (snapshot() != before_hash) {
                        rr.fail("C17.dict_refusal_side_effect", "refused dictionary call modified the stream state");
                        return false;
                }
                return true;
        }
};
} // namespace

static void exec_deflate(const Json &plan, RunResult &rr, Hist &h)
{
        DeflateSession s(plan, rr, h);
        s.run();
        // C17: the pre-processed dictionary gives the same stream as setting it directly (twin run, same call history)
        if (!rr.violated() && (uint64_t) plan.at("dict").geti("mode") % 3 == 2 && plan.at("dict").geti("twin") && s.st && s.st->internal_state.state == ZSTATE_END) {
                Json q = plan;
                q.find("dict")->set("mode", 1);
                RunResult r2;
                Hist h2;
                DeflateSession t(q, r2, h2);
                t.run();
                h.calls += h2.calls;
                COUNT("probe.process_dict_vs_set_dict_twin");
                if (r2.violated()) {
                        rr = r2;
                        return;
                }
                if (t.st && t.st->internal_state.state == ZSTATE_END && t.outbuf != s.outbuf) // (a twin cut short by the arena budget proves nothing)
                        rr.fail("C17.process_vs_set", strf("same data, dictionary (%zu bytes) and call history: isal_deflate_process_dict + reset_dict gives %zu output bytes, isal_deflate_set_dict %zu, content %s", s.dict.size(), s.outbuf.size(), t.outbuf.size(), s.outbuf.size() == t.outbuf.size() ? "differs" : "length differs"));
        }
}

// ------------------------------------------------------------------ generator
static Json gen_deflate(Rng &r0, const std::string &focus, int tier)
{
        Rng r(r0.u64(), "deflate.plan"), rio(r0.u64(), "deflate.io"), rmem(r0.u64(), "deflate.mem");
        Json p = Json::obj();
        p.set("prof", "deflate").set("focus", focus);
        int level = (int) r.below(4);
        int wrap = (int) r.below(5);
        if (focus == "C11" && wrap == 0)
                wrap = 1 + (int) r.below(4);
        static const int hbs[] = { 0, 0, 9, 10, 11, 12, 13, 14, 15 };
        int hb = r.pick(hbs);
        bool starve = focus == "C10" ? r.chance(3, 4) : r.chance(1, 6);
        uint64_t maxlen = starve ? 3000 : (r.chance(1, 10) ? 300000 : r.chance(1, 3) ? 70000 : 9000);
        int bias = 0;
        if (focus == "C10" && r.chance(1, 2))
                bias = 1;
        Json data;
        if (focus == "C17" && r.chance(2, 3)) {
                if (hb == 0 && r.chance(1, 2))
                        hb = 9 + (int) r.below(7);
                int w = eff_hist_bits(hb);
                data = gen_data_spec(r, std::min<uint64_t>(4ull << w, 140000), 2);
                data.set("p", (uint64_t) ((1ll << w) + r.range(-2, 2)));
        } else
                data = gen_data_spec(r, maxlen, bias);
        maybe_adler_worst_case(r, focus, data);
        uint64_t n = (uint64_t) data.geti("n");
        // "cache too small for the fast path": the smallest legal level buffer and poorly compressible input a few times its token
        // capacity, so that token-buffer-full block boundaries (rare with default sizes) fall everywhere, also inside the finish code
        bool tiny_lb = r.chance(1, 6);
        if (tiny_lb) {
                level = 1 + (int) r.below(3);
                static const int ks[] = { DK_RANDOM, DK_RANDOM, DK_MIXED, DK_FARCOPY, DK_SKEW };
                Json d3 = Json::obj();
                d3.set("k", r.pick(ks)).set("n", (uint64_t) (300 + r.below(6000))).set("s", r.u64() >> 16).set("p", (uint64_t) r.below(2000));
                data = d3;
                n = (uint64_t) data.geti("n");
        }
        static const int eosvals[] = { 2, 0x100, 0x101, 0x8000, 0xffff, 3 };
        p.set("eosval", r.chance(1, 6) ? r.pick(eosvals) : 1);
        p.set("data", data).set("level", level).set("wrap", wrap).set("hb", hb);
        Json lb = Json::arr();
        lb.push((int) (tiny_lb || r.chance(1, 2) ? 0 : r.below(5))).push(tiny_lb || r.chance(1, 2) ? 0 : (int) r.below(r.chance(1, 2) ? 64 : 50000)).push((int) r.below(2));
        p.set("lb", lb);
        Json hf = Json::obj();
        int ht = r.chance(1, 2) ? IGZIP_HUFFTABLE_DEFAULT : (int) r.below(3);
        hf.set("t", ht).set("k", (int) r.below(DK_NKINDS)).set("n", (int) r.below(20000)).set("s", r.u64() >> 20).set("subset", (int) r.chance(1, 4));
        p.set("huff", hf);
        Json dj = Json::obj();
        int dmode = (focus == "C17" ? r.chance(1, 2) : r.chance(1, 8)) ? 1 + (int) r.below(2) : 0;
        static const uint32_t dls[] = { 1, 2, 3, 8, 258, 4096, 32767, 32768, 32769, 40000, 65536, 70000 };
        dj.set("mode", dmode).set("n", r.chance(1, 2) ? r.pick(dls) : (uint32_t) r.logsize(70000)).set("s", r.u64() >> 20).set("share", r.chance(2, 3) ? (int) (1 + r.logsize(40000)) : 0).set("shoff", r.chance(1, 2) ? 0 : r.u64() >> 40).set("shpos", (int) r.below(2)).set("hb_late", (int) r.chance(1, 3)).set("twin", (int) (focus == "C17" ? r.chance(1, 2) : r.chance(1, 8))).set("zhead", r.chance(1, 4) ? (int64_t) (1 + r.below(100000)) : 0);
        p.set("dict", dj);
        Json mem = Json::obj();
        bool recycle = (focus == "C07" || focus == "C05") && rmem.chance(1, 8);
        mem.set("rel", (int) !rmem.chance(1, 10)).set("place", (int) rmem.below(2)).set("fill", rmem.u64() >> 24).set("dangling", (int) rmem.below(2)).set("recycle", (int) recycle).set("regs", rmem.chance(1, 4) ? 0 : rmem.u64() >> 24).set("skip", rmem.chance(1, 2) ? 0 : (int) rmem.below(4096));
        // contiguous periodic input (period = the window): a match that reaches behind a completed full flush finds equal bytes there
        if ((focus == "C14" || focus == "C07" || focus == "C17") && r.chance(1, focus == "C07" ? 20 : 6)) {
                int w = eff_hist_bits(hb);
                Json d2 = Json::obj();
                uint64_t per = r.chance(1, 2) ? 32768 : 1ull << w;
                d2.set("k", (int) DK_LONGREP).set("n", per + 16 + r.logsize(40000)).set("s", r.u64() >> 16).set("p", per).set("runs", (int) r.chance(1, 2));
                data = d2;
                n = (uint64_t) data.geti("n");
                p.set("data", data);
                mem.set("contig", 1).set("lead", r.chance(1, 2) ? (int64_t) per : 0);
        }
        p.set("mem", mem);
        // ---- call history
        int im = (int) rio.below(6), om = starve ? (int) rio.below(3) : (int) rio.below(6);
        uint32_t big = (uint32_t) std::max<uint64_t>(n, 16);
        int flush_rate = (focus == "C14") ? (int) (1 + rio.below(4)) : (rio.chance(1, 3) ? 0 : (int) (2 + rio.below(12)));
        int discipline = (int) rio.below(4); // 0 free, 1 refill only when consumed, 2 drain before refill, 3 both
        uint32_t nops = (uint32_t) rio.below(starve ? 200 : 60);
        Json ops = Json::arr();
        uint64_t planned = 0;
        if (rio.chance(1, focus == "C17" ? 4 : 8)) {
                // the same perturbation at the very start of the stream: a call without input that only writes the stream / block
                // header, then the first data while the output is starved
                Json o2 = Json::arr(), o3 = Json::arr();
                o2.push(0).push(0).push(rio.chance(1, 2) ? 400 : (uint32_t) rio.below(300)).push(0).push(0).push(0); // 400: room for a whole default block header
                o3.push(0).push(gen_chunk(rio, im, big)).push((uint32_t) rio.below(9)).push(0).push(0).push(0);
                ops.push(o2);
                ops.push(o3);
        }
        for (uint32_t i = 0; i < nops; i++) {
                if (rio.chance(1, focus == "C17" ? 12 : 40)) {
                        Json o = Json::arr();
                        o.push(1).push((int) rio.below(40000)).push(rio.u64() >> 40);
                        ops.push(o);
                        continue;
                }
                if (rio.chance(1, 40)) {
                        Json o = Json::arr();
                        o.push(2).push((int) rio.below(3));
                        ops.push(o);
                        continue;
                }
                if (rio.chance(1, focus == "C10" ? 25 : 300)) {
                        Json o = Json::arr();
                        o.push(4).push((int) rio.below(4)).push((int) rio.below(70000));
                        ops.push(o);
                        continue;
                }
                uint32_t feed = gen_chunk(rio, rio.chance(1, 4) ? (int) rio.below(6) : im, big);
                uint32_t out = gen_chunk(rio, rio.chance(1, 4) ? (int) rio.below(6) : om, big + big / 4 + 64);
                int flush = flush_rate && rio.chance(1, flush_rate) ? (int) (1 + rio.below(2)) : 0;
                if (focus == "C14" && flush && rio.chance(1, 3) && i + 1 < nops) { // bursts
                        feed = rio.chance(1, 2) ? 0 : feed;
                }
                planned += feed;
                int eosf = rio.chance(1, 3) ? 0 : 1; // late EOS when 0
                int flags = (discipline & 1 ? 1 : 0) | (discipline & 2 ? 2 : 0) | (rio.chance(1, 10) ? 4 : 0) | (rio.chance(1, 4) ? 16 : 0) | (rio.chance(1, 4) ? 32 : 0);
                Json o = Json::arr();
                o.push(0).push(feed).push(out).push(flush).push(eosf).push(flags);
                ops.push(o);
                if ((focus == "C14" || focus == "C07" || focus == "C05") && flush && rio.chance(1, focus == "C14" ? 3 : 8)) {
                        // right after a flush request: give the flush room to complete, then an idle (or nearly idle) call that only
                        // opens the next block, then data arriving while the output is starved
                        Json o1 = Json::arr(), o2 = Json::arr(), o3 = Json::arr();
                        o1.push(0).push(0).push(big + big / 4 + 64).push(flush).push(0).push(0);
                        o2.push(0).push(rio.chance(1, 2) ? 0 : (uint32_t) rio.below(20)).push(rio.chance(1, 2) ? 400 : (uint32_t) rio.below(300)).push(0).push(0).push(0);
                        o3.push(0).push(gen_chunk(rio, im, big)).push((uint32_t) (1 + rio.below(16))).push(0).push(eosf).push(0);
                        ops.push(o1);
                        ops.push(o2);
                        ops.push(o3);
                }
        }
        if (!starve && rio.chance(1, 8)) { // exactly one split of the input and one of the output
                ops = Json::arr();
                Json o = Json::arr();
                o.push(0).push((uint32_t) rio.below(n + 1)).push(rio.chance(1, 2) ? big + big / 4 + 1024 : (uint32_t) rio.logsize(big + 64)).push(rio.chance(1, 4) ? (int) (1 + rio.below(2)) : 0).push((int) rio.below(2)).push(0);
                ops.push(o);
        }
        // "big chunk" sessions: hundreds of KiB of poorly compressible data in a few large chunks, so that blocks start in
        // one caller buffer and close in the next while the codec compresses straight from the caller's memory
        bool bigchunk = !starve && r.chance(1, 8);
        if (bigchunk) {
                Json bd = Json::obj();
                uint64_t bn = 150000 + r.below(1000000);
                static const int bks[] = { DK_RANDOM, DK_RANDOM, DK_MIXED, DK_FF };
                bd.set("k", r.pick(bks)).set("n", bn).set("s", r.u64() >> 16).set("p", 0);
                p.set("data", bd);
                n = bn;
                big = (uint32_t) bn;
                ops = Json::arr();
                for (int i = (int) (2 + rio.below(7)); i > 0; i--) {
                        uint32_t feed = (uint32_t) (30000 + rio.below(500000));
                        uint32_t out = rio.chance(3, 4) ? feed + feed / 8 + 2048 : (uint32_t) (1 + rio.logsize(100000));
                        Json o = Json::arr();
                        o.push(0).push(feed).push(out).push(rio.chance(1, 8) ? (int) (1 + rio.below(2)) : 0).push((int) rio.below(2)).push((int) (rio.chance(1, 2) ? 1 : 0) | (rio.chance(1, 4) ? 32 : 0));
                        ops.push(o);
                }
        }
        if (focus == "C10" && rio.chance(1, 3)) {
                // the stream is closed while a flush requested just before is still pending and output stays scarce
                Json o = Json::arr();
                o.push(0).push(rio.chance(1, 2) ? 0 : gen_chunk(rio, im, big)).push((uint32_t) (1 + rio.below(16))).push((int) (1 + rio.below(2))).push(0).push(0);
                ops.push(o);
        }
        // page-wise feeding of page-structured data: whole pages per call, flushes at page multiples
        if ((focus == "C07" || focus == "C14" || focus == "C05" || focus == "C15") && r.chance(1, 10)) {
                Json d4 = Json::obj();
                uint64_t pp = r.below(5), P = pages_page_size(pp);
                d4.set("k", (int) DK_PAGES).set("n", (uint64_t) (P * (2 + r.below(5)))).set("s", r.u64() >> 16).set("p", pp);
                p.set("data", d4);
                ops = Json::arr();
                for (int k = 0; k < 8; k++) {
                        Json o = Json::arr();
                        o.push(0).push((uint32_t) (P * (1 + rio.below(3)))).push((uint32_t) (rio.chance(2, 3) ? 600000 : rio.logsize(70000))).push((int) rio.below(3)).push(0).push(0);
                        ops.push(o);
                }
        }
        // dense token runs written out against a tight output window: one large block (no flushes, a roomy level buffer, all the input
        // at once or in a few feeds), data whose tokens are as wide as the bit writers' vector paths accept, and then every call with
        // one or two vector stores' worth of output space - the position of the window's end sweeps over the dense run
        bool dense_out = r.chance(1, focus == "C05" || focus == "C10" ? 8 : 12) || getenv("SIM_FORCE_DENSE"); // (the variable: diagnostic hand runs only)
        if (dense_out) {
                static const int dks[] = { DK_RARE, DK_RARE, DK_LITCOPY, DK_LITCOPY, DK_FARCOPY, DK_ALLSYMS, DK_DISTSKEW, DK_DISTSKEW };
                Json d5 = Json::obj();
                d5.set("k", r.pick(dks)).set("n", (uint64_t) (12000 + r.below(50000))).set("s", r.u64() >> 16).set("p", (uint64_t) r.below(2000));
                p.set("data", d5);
                n = (uint64_t) d5.geti("n");
                big = (uint32_t) n;
                if (r.chance(1, 3))
                        p.set("level", 3);
                else if (level == 0 && r.chance(3, 4))
                        p.set("level", 1 + (int) r.below(3));
                if (r.chance(3, 4))
                        p.set("hb", 0); // far copies need the whole window
                Json lb2 = Json::arr();
                lb2.push((int) (r.chance(1, 2) ? 4 : 2 + r.below(2))).push(0).push((int) r.below(2));
                p.set("lb", lb2);
                ops = Json::arr();
                for (int k = (int) r.below(3); k > 0; k--) {
                        Json o = Json::arr();
                        o.push(0).push((uint32_t) (1 + r.below(n))).push((uint32_t) (33 + rio.below(96))).push(0).push(1).push(0);
                        ops.push(o);
                }
        }
        p.set("ops", ops);
        Json tl = Json::arr();
        uint32_t tin = rio.chance(1, 2) ? 0 : gen_chunk(rio, im, big);
        if (bigchunk && tin && tin < 30000)
                tin += 30000;
        uint32_t tout;
        if (focus == "C10" && starve)
                tout = (uint32_t) (1 + rio.below(rio.chance(1, 3) ? 1 : 16));
        else
                tout = rio.chance(1, 2) ? (uint32_t) (big + big / 2 + 1024) : std::max<uint32_t>(1, gen_chunk(rio, om, big + 1024));
        // every call starts with one or two vector stores' worth of room (the bit writers scatter 16 tokens at once); more often for
        // the data kinds that produce dense token runs
        int dk = (int) p.at("data").geti("k");
        if (dense_out || rio.chance(1, dk == DK_RARE || dk == DK_LITCOPY || dk == DK_FARCOPY ? 3 : 6))
                tout = (uint32_t) (rio.chance(2, 3) ? 48 + rio.below(33) : 33 + rio.below(96)); // mostly within 16 bytes of the 64-byte store
        if (bigchunk && tout < 4096)
                tout += 4096;
        if (n > 20000 && tout < 64 && !(focus == "C10"))
                tout = 64 + tout; // keep long streams from needing 10^5 calls
        if (n > 4000 && tout < 8)
                tout += 8;
        tl.push(tin).push(tout).push(0);
        p.set("tail", tl);
        Json av = Json::arr();
        for (auto &a : g_avoid)
                av.push(a);
        p.set("avoid", av);
        maybe_swarm_cpu(r, p, 1, 10);
        (void) tier;
        (void) planned;
        return p;
}

extern const Profile prof_deflate;
const Profile prof_deflate = { "deflate", gen_deflate, exec_deflate };
