// sess_twin.cc — C15 sub-checks that need no scheduler:
//  twin : the same plan executed twice with different memory garbage (context, level buffer, output space),
//         different register garbage and a different placement of every buffer must produce identical histories;
//  reuse: "use, reset / re-init, use again" must behave exactly like a fresh context.
#include "sim.h"
#include "igzip_lib.h"
#include "defgen.h"

uint32_t level_buf_size_for(int level, int cls, uint32_t extra);
uint32_t deflate_bound(uint32_t len, int wrap);
int wrap_to_ref(int gzip_flag);
std::string fault_str(const FaultInfo &fi);

static void exec_twin(const Json &plan, RunResult &rr, Hist &h)
{
        const Json &inner = plan.at("inner");
        const Profile *p = find_profile(inner.gets("prof"));
        if (!p || !strcmp(p->name, "twin")) {
                rr.fail("INFRA.twin", "bad inner profile");
                return;
        }
        // variant B: every garbage source changed
        const Json &alt = plan.at("alt");
        auto variant = [&](int which) {
                Json q = inner;
                Json *m = q.find("mem");
                if (m) {
                        if (which & 1)
                                m->set("skip", (int64_t) (((uint64_t) m->geti("skip") + (uint64_t) alt.geti("skip") + 1) % 4096));
                        if (which & 8) // a few bytes inside the page as well: every buffer, the contexts included, moves relative to 64-byte lines
                                m->set("sub", (int64_t) (1 + ((uint64_t) alt.geti("skip") * 7 + 3) % 63));
                        if (which & 2)
                                m->set("fill", (int64_t) (m->geti("fill") + alt.geti("fill") + 1));
                        if (which & 4)
                                m->set("regs", (int64_t) (m->geti("regs") + alt.geti("regs") + 1));
                }
                return q;
        };
        // A run that used up the arena's page budget ended where the *harness* ran out of room, and where that happens depends on the
        // placement knobs (skipped pages, the sub-page shift costs up to one page per buffer): such a run is compared with nothing.
        bool out_of_room = false;
        auto run1 = [&](const Json &q, RunResult &r, Hist &hh) {
                uint64_t before = g_arena.budget_hits;
                g_arena.run_begin((size_t) ((uint64_t) q.at("mem").geti("skip")), (size_t) ((uint64_t) q.at("mem").geti("sub")));
                p->exec(q, r, hh);
                g_arena.run_end();
                if (g_arena.budget_hits != before)
                        out_of_room = true;
        };
        RunResult ra, rb;
        Hist ha, hb;
        run1(inner, ra, ha);
        if (ra.violated()) { // an inner violation passes through under its own oracle id
                rr = ra;
                h = ha;
                return;
        }
        run1(variant(7), rb, hb);
        if (out_of_room) {
                h = ha;
                COUNT("run.twin_void_arena_budget");
                return;
        }
        h = ha;
        h.rec("twin", { (int64_t) (ha.h == hb.h), (int64_t) ha.events, (int64_t) hb.events });
        h.unusual++;
        COUNT("mem.garbage_prefill_twin");
        if (ha.h == hb.h && ra.oracle == rb.oracle) {
                // fourth run: addresses shifted by a few bytes inside their pages.  How many calls a session needs with starved buffers
                // may legitimately depend on alignment (the library's temporary-buffer paths), so for the streaming profiles only the
                // results are compared here: final output bytes, verdicts, one-shot results.
                if (!strcmp(p->name, "deflate") || !strcmp(p->name, "oneshot") || !strcmp(p->name, "inflate") || !strcmp(p->name, "kern")) {
                        RunResult rd;
                        Hist hd;
                        run1(variant(9), rd, hd);
                        if (out_of_room) {
                                COUNT("run.twin_void_arena_budget");
                                return;
                        }
                        COUNT("mem.subpage_address_twin");
                        bool same = !strcmp(p->name, "kern") ? hd.h == ha.h : hd.res == ha.res;
                        if (!same || rd.oracle != ra.oracle)
                                rr.fail("C15.address_dependence", strf("same plan, same inputs: results differ when every buffer is moved by a few bytes inside its page (inner profile %s)", p->name));
                }
                return;
        }
        // classify: which single knob is enough?
        const char *names[3] = { "buffer addresses", "prior contents of context / level buffer / output space", "vector and mask register contents at call entry and the dead stack below it" };
        const char *oracles[3] = { "C15.address_dependence", "C15.garbage_dependence", "C15.register_dependence" };
        for (int k = 0; k < 3; k++) {
                RunResult rc;
                Hist hc;
                run1(variant(1 << k), rc, hc);
                if (out_of_room) {
                        COUNT("run.twin_void_arena_budget");
                        return;
                }
                if (hc.h != ha.h || rc.oracle != ra.oracle) {
                        rr.fail(oracles[k], strf("same plan, same inputs: history differs when only the %s change (%llu vs %llu events; inner profile %s)", names[k], (unsigned long long) ha.events, (unsigned long long) hc.events, p->name));
                        return;
                }
        }
        rr.fail("C15.garbage_dependence", strf("same plan, same inputs: history differs when addresses, memory garbage and register garbage all change (inner profile %s)", p->name));
}

static Json gen_twin(Rng &r0, const std::string &focus, int tier)
{
        Rng r(r0.u64(), "twin.plan");
        static const Profile *inners[] = { &prof_deflate, &prof_deflate, &prof_oneshot, &prof_inflate, &prof_inflate, &prof_hdr, &prof_kern };
        const Profile *p = inners[r.below(7)];
        Json inner = p->gen(r0, focus, tier);
        Json plan = Json::obj();
        plan.set("prof", "twin").set("focus", focus);
        Json alt = Json::obj();
        alt.set("skip", (int) r.below(4095)).set("fill", r.u64() >> 24).set("regs", r.u64() >> 24);
        plan.set("alt", alt).set("inner", inner);
        Json mem = Json::obj();
        mem.set("skip", 0);
        plan.set("mem", mem);
        return plan;
}

extern const Profile prof_twin;
const Profile prof_twin = { "twin", gen_twin, exec_twin };

// ------------------------------------------------------------------------------------------------ reuse
namespace
{
struct Reuse {
        const Json &plan;
        RunResult &rr;
        Hist &h;
        GuardCtx gc;
        Reuse(const Json &p, RunResult &r, Hist &hh) : plan(p), rr(r), h(hh) {}

        struct Params {
                int level, wrap, hb, flush_every;
                std::vector<uint8_t> data;
                std::vector<uint32_t> chunks;
                bool abandon; // stop half way (never reaches END)
        };
        Params params(const Json &j)
        {
                Params p;
                p.level = (int) ((uint64_t) j.geti("level") % 4);
                p.wrap = (int) ((uint64_t) j.geti("wrap") % 5);
                p.hb = (int) j.geti("hb");
                if (p.hb != 0 && (p.hb < 9 || p.hb > 15))
                        p.hb = 0;
                p.flush_every = (int) ((uint64_t) j.geti("fl") % 4);
                p.data = make_data(j.at("data"));
                for (auto &c : j.at("chunks").a)
                        p.chunks.push_back((uint32_t) ((uint64_t) c.i % (1u << 22)));
                p.abandon = j.geti("abandon") != 0;
                return p;
        }
        // compress with the streaming API on a given (possibly dirty) stream + level buffer
        bool deflate(struct isal_zstream *st, Slot *lbuf, const Params &p, std::vector<uint8_t> &out, const char *what, std::vector<int64_t> &trace)
        {
                st->level = p.level;
                st->level_buf = p.level ? lbuf->data : nullptr;
                st->level_buf_size = p.level ? level_buf_size_for(p.level, 1, 0) : 0;
                st->gzip_flag = p.wrap;
                st->hist_bits = p.hb;
                st->flush = NO_FLUSH;
                st->end_of_stream = 0;
                isal_deflate_set_hufftables(st, nullptr, IGZIP_HUFFTABLE_DEFAULT);
                size_t pos = 0;
                st->avail_in = 0;
                st->next_in = nullptr;
                for (size_t k = 0;; k++) {
                        bool last = k >= p.chunks.size();
                        size_t n = last ? p.data.size() - pos : std::min<size_t>(p.chunks[k], p.data.size() - pos);
                        if (p.abandon && last)
                                return true; // crash-and-restart analogue: the session is dropped here
                        Slot *si = g_arena.alloc(st->avail_in + n, PLACE_END, "in_chunk", 0, 1);
                        size_t cap = n + n / 2 + 4096 + 70000;
                        Slot *so = g_arena.alloc(cap, PLACE_END, "out_chunk", (uint64_t) plan.at("mem").geti("fill") + 31 + k, 1);
                        if (!si || !so)
                                return false;
                        memcpy(si->data, st->next_in, st->avail_in);
                        memcpy(si->data + st->avail_in, p.data.data() + pos, n);
                        pos += n;
                        st->next_in = si->data;
                        st->avail_in += (uint32_t) n;
                        st->end_of_stream = last;
                        st->flush = (!last && p.flush_every && (k % p.flush_every) == 0) ? (uint16_t) (1 + k % 2) : NO_FLUSH;
                        do {
                                st->next_out = so->data;
                                st->avail_out = (uint32_t) cap;
                                int ret = 0;
                                h.calls++;
                                if (GUARDED(gc, ret = isal_deflate(st))) {
                                        report_fault(rr, h, gc.fi, what);
                                        return false;
                                }
                                uint32_t produced = (uint32_t) cap - st->avail_out;
                                out.insert(out.end(), so->data, so->data + produced);
                                trace.push_back(ret);
                                trace.push_back(produced);
                                trace.push_back(st->internal_state.state);
                                trace.push_back(st->total_in);
                                if (ret)
                                        return true;
                        } while (st->avail_out == 0);
                        g_arena.release(so);
                        if (last)
                                break;
                }
                return true;
        }
        bool inflate(struct inflate_state *st, int mode, const std::vector<uint8_t> &bytes, uint32_t chunk, size_t stop_at, std::vector<uint8_t> &out, std::vector<int64_t> &trace)
        {
                st->crc_flag = mode;
                st->hist_bits = 0;
                st->avail_in = 0;
                st->next_in = nullptr;
                size_t pos = 0;
                if (chunk == 0)
                        chunk = 1;
                bool sink_was_full = false; // all input taken but the last call filled its output: more is pending inside the decoder
                while (pos < stop_at || st->avail_in || sink_was_full) {
                        size_t n = std::min<size_t>(chunk, stop_at - pos);
                        Slot *si = g_arena.alloc(st->avail_in + n, PLACE_END, "in_chunk", 0, 1), *so = g_arena.alloc(70000, PLACE_END, "out_chunk", 5, 1);
                        if (!si || !so)
                                return false;
                        memcpy(si->data, st->next_in, st->avail_in);
                        memcpy(si->data + st->avail_in, bytes.data() + pos, n);
                        pos += n;
                        st->next_in = si->data;
                        st->avail_in += (uint32_t) n;
                        st->next_out = so->data;
                        st->avail_out = 70000;
                        int ret = 0;
                        h.calls++;
                        if (GUARDED(gc, ret = isal_inflate(st))) {
                                report_fault(rr, h, gc.fi, "isal_inflate (reuse)");
                                return false;
                        }
                        if (ret < 0) { // after an error return neither counters nor buffer contents are promised: only the verdict counts
                                trace.push_back(ret);
                                g_arena.release(so);
                                break;
                        }
                        out.insert(out.end(), so->data, so->data + (70000 - st->avail_out));
                        trace.push_back(ret);
                        trace.push_back(70000 - st->avail_out);
                        trace.push_back(st->block_state);
                        g_arena.release(so);
                        if (ret < 0 || st->block_state == ISAL_BLOCK_FINISH)
                                break;
                        sink_was_full = st->avail_out == 0;
                        if (n == 0 && st->avail_out > 0)
                                break;
                }
                return true;
        }

        // one-shot compression on a given (possibly used) stream; only the documented caller-set fields are assigned
        bool stateless(struct isal_zstream *st, Slot *lbuf, const Params &p, const Json &j, std::vector<uint8_t> &out, std::vector<int64_t> &trace, const char *what, bool scrambled = false)
        {
                int lbcls = (int) ((uint64_t) j.geti("lbcls") % 5);
                bool lbnull = p.level == 1 && j.geti("lbnull");
                st->level = p.level;
                st->level_buf = (p.level && !lbnull) ? lbuf->data : nullptr;
                st->level_buf_size = (p.level && !lbnull) ? level_buf_size_for(p.level, lbcls, 0) : 0;
                st->gzip_flag = p.wrap;
                st->hist_bits = p.hb;
                st->flush = j.geti("osfl") ? FULL_FLUSH : NO_FLUSH;
                st->end_of_stream = j.geti("eos", 1) ? 1 : 0;
                st->total_in = 0;
                st->total_out = 0;
                uint32_t bound = deflate_bound((uint32_t) p.data.size(), p.wrap) + 16;
                uint64_t frac = (uint64_t) j.geti("ofrac", 256) % 257; // 256 = the whole bound
                uint32_t cap = (uint32_t) ((uint64_t) bound * frac / 256);
                Slot *si = g_arena.alloc(p.data.size(), PLACE_END, "os_in", 0, 1);
                Slot *so = g_arena.alloc(cap, PLACE_END, "os_out", (uint64_t) plan.at("mem").geti("fill") + 77, 1);
                if (!si || !so)
                        return false;
                memcpy(si->data, p.data.data(), p.data.size());
                st->next_in = si->data;
                st->avail_in = (uint32_t) p.data.size();
                st->next_out = so->data;
                st->avail_out = cap;
                int ret = 0;
                h.calls++;
                if (GUARDED(gc, ret = isal_deflate_stateless(st))) {
                        if (scrambled) // the same call on the same stream did not fault when the level buffer still held what the previous call left
                                rr.fail("C15.garbage_dependence", strf("%s: %s - only after the caller overwrote the level buffer between two one-shot calls", what, fault_str(gc.fi).c_str()));
                        else
                                report_fault(rr, h, gc.fi, what);
                        return false;
                }
                trace.push_back(ret);
                if (ret == COMP_OK) { // after an error return neither counters nor buffer contents are promised
                        uint32_t produced = cap - st->avail_out;
                        out.assign(so->data, so->data + produced);
                        trace.push_back(produced);
                        trace.push_back(st->avail_in);
                        trace.push_back(st->total_out);
                        // whatever the stream was used for before, a call that reports success must have produced a stream of its input
                        // (the wrapper header may legitimately be absent: has_wrap_hdr persists across one-shot calls by design)
                        std::vector<uint8_t> dec;
                        RefInflate ri;
                        int w = wrap_to_ref(p.wrap);
                        int rs = ref_inflate_all(w, out.data(), out.size(), dec, &ri);
                        bool open_ok = st->flush == FULL_FLUSH && !j.geti("eos", 1);
                        auto good = [&]() { return (rs == REF_DONE || (open_ok && rs == REF_NEED_MORE)) && dec == p.data; };
                        if (!good() && (w == RW_GZIP || w == RW_ZLIB)) {
                                dec.clear();
                                rs = ref_inflate_all(w == RW_GZIP ? RW_GZIP_TRL : RW_ZLIB_TRL, out.data(), out.size(), dec, &ri);
                        }
                        if (!good()) {
                                rr.fail("C10.oneshot_roundtrip", strf("%s: returned COMP_OK with %u bytes that do not decode to the %zu input bytes (reference status %d after %zu bytes; level %d wrap %d)", what, produced, p.data.size(), rs, dec.size(), p.level, p.wrap));
                                return false;
                        }
                } else if (ret == STATELESS_OVERFLOW)
                        COUNT("io.oneshot_overflow_then_reuse");
                g_arena.release(si);
                g_arena.release(so);
                return true;
        }
        // how 4: a one-shot call (often one that overflows) followed by another one-shot call on the same stream and level buffer -
        // with nothing, stateless_init, reset or init in between - must give what a fresh stream gives
        void run_oneshot_chain(uint64_t fill, const Params &a, const Params &b)
        {
                int between = (int) ((uint64_t) plan.geti("between") % 4);
                Slot *s1 = g_arena.alloc(sizeof(struct isal_zstream), PLACE_END, "zstream_reused", fill + 1, 16);
                Slot *l1 = g_arena.alloc(level_buf_size_for(3, 4, 0), PLACE_END, "level_buf_reused", fill + 2, 16);
                Slot *s2 = g_arena.alloc(sizeof(struct isal_zstream), PLACE_END, "zstream_fresh", fill + 3, 16);
                Slot *l2 = g_arena.alloc(level_buf_size_for(3, 4, 0), PLACE_END, "level_buf_fresh", fill + 4, 16);
                if (!s1 || !l1 || !s2 || !l2)
                        return;
                struct isal_zstream *st1 = (struct isal_zstream *) s1->data, *st2 = (struct isal_zstream *) s2->data;
                std::vector<uint8_t> oa, ob1, ob2;
                std::vector<int64_t> ta, tb1, tb2;
                if (GUARDED(gc, isal_deflate_stateless_init(st1))) {
                        report_fault(rr, h, gc.fi, "isal_deflate_stateless_init");
                        return;
                }
                if (!stateless(st1, l1, a, plan.at("a"), oa, ta, "isal_deflate_stateless (first use)"))
                        return;
                if (GUARDED(gc, {
                            if (between == 1)
                                    isal_deflate_stateless_init(st1);
                            else if (between == 2)
                                    isal_deflate_reset(st1);
                            else if (between == 3)
                                    isal_deflate_init(st1);
                    })) {
                        report_fault(rr, h, gc.fi, "re-initialisation between one-shot calls");
                        return;
                }
                static const char *bnames[4] = { "mem.oneshot_reuse_without_init", "mem.oneshot_reuse_after_stateless_init", "mem.oneshot_reuse_after_reset", "mem.oneshot_reuse_after_init" };
                COUNT(bnames[between]);
                if (!stateless(st1, l1, b, plan.at("b"), ob1, tb1, "isal_deflate_stateless (reused stream)"))
                        return;
                isal_deflate_stateless_init(st2);
                if (between == 0) {
                        // Reused as is, the stream legitimately remembers the call sequence (a wrapper header already written): the
                        // comparison is with the same two calls on another stream whose level buffer the caller overwrites in between -
                        // the prior contents of the level buffer must not matter to a one-shot call.
                        std::vector<uint8_t> oa2;
                        std::vector<int64_t> ta2;
                        if (!stateless(st2, l2, a, plan.at("a"), oa2, ta2, "isal_deflate_stateless (first use, second stream)"))
                                return;
                        Rng g((uint64_t) plan.at("mem").geti("fill") + 991, "reuse.scramble");
                        for (size_t i = 0; i < l2->len; i += 8) {
                                uint64_t v = g.u64();
                                memcpy(l2->data + i, &v, std::min<size_t>(8, l2->len - i));
                        }
                        COUNT("mem.level_buf_overwritten_between_oneshot_calls");
                        if (ta2 != ta || oa2 != oa) {
                                rr.fail("C15.garbage_dependence", "the same first one-shot call on two freshly initialised streams gives different results");
                                return;
                        }
                        if (!stateless(st2, l2, b, plan.at("b"), ob2, tb2, "isal_deflate_stateless (reused stream, level buffer overwritten)", true))
                                return;
                        if (tb1 != tb2 || ob1 != ob2)
                                rr.fail("C15.garbage_dependence", strf("one-shot compression of %zu bytes (level %d wrap %d) on a stream reused as is after a previous one-shot call (level %d, ret %lld): returns %lld with %zu bytes when the level buffer still holds what that call left, %lld with %zu bytes when the caller overwrote the level buffer in between", b.data.size(), b.level, b.wrap, a.level, (long long) (ta.empty() ? 0 : ta[0]), (long long) (tb1.empty() ? 0 : tb1[0]), ob1.size(), (long long) (tb2.empty() ? 0 : tb2[0]), ob2.size()));
                        h.rec("reuse_end", { (int64_t) ob1.size(), (int64_t) ob2.size(), (int64_t) hash_bytes(ob1.data(), ob1.size()), ta.empty() ? 0 : ta[0], tb1.empty() ? 0 : tb1[0] });
                        h.sigmix((uint64_t) (ta.empty() ? 0 : ta[0] + 10) << 20 ^ (uint64_t) between << 12);
                        return;
                }
                if (!stateless(st2, l2, b, plan.at("b"), ob2, tb2, "isal_deflate_stateless (fresh stream)"))
                        return;
                h.rec("reuse_end", { (int64_t) ob1.size(), (int64_t) ob2.size(), (int64_t) hash_bytes(ob1.data(), ob1.size()), ta.empty() ? 0 : ta[0], tb1.empty() ? 0 : tb1[0] });
                h.sigmix((uint64_t) (ta.empty() ? 0 : ta[0] + 10) << 20 ^ (uint64_t) between << 12);
                if (tb1 != tb2 || ob1 != ob2) {
                        size_t k = 0;
                        while (k < ob1.size() && k < ob2.size() && ob1[k] == ob2[k])
                                k++;
                        static const char *bt[4] = { "reused as is", "re-initialised with isal_deflate_stateless_init", "reset", "re-initialised with isal_deflate_init" };
                        rr.fail("C15.reuse_differs", strf("one-shot compression of %zu bytes (level %d wrap %d) on a stream %s after a previous one-shot call (level %d, ret %lld) returns %lld with %zu bytes, on a fresh stream %lld with %zu bytes; first difference at output byte %zu", b.data.size(), b.level, b.wrap, bt[between], a.level, (long long) (ta.empty() ? 0 : ta[0]), (long long) (tb1.empty() ? 0 : tb1[0]), ob1.size(), (long long) (tb2.empty() ? 0 : tb2[0]), ob2.size(), k));
                }
        }

        void run()
        {
                uint64_t fill = (uint64_t) plan.at("mem").geti("fill");
                int how = (int) ((uint64_t) plan.geti("how") % 6); // 0 deflate_reset, 1 deflate_init again, 2 inflate_reset, 3 inflate_init again, 4 one-shot chain, 5 one-shot decode on a used state
                if (how == 4) {
                        Params a = params(plan.at("a")), b = params(plan.at("b"));
                        h.rec("reuse", { how, a.level, b.level, (int64_t) a.data.size(), (int64_t) b.data.size(), plan.geti("between") });
                        h.unusual++;
                        run_oneshot_chain(fill, a, b);
                        return;
                }
                Params a = params(plan.at("a")), b = params(plan.at("b"));
                b.abandon = false;
                h.rec("reuse", { how, a.level, b.level, (int64_t) a.data.size(), (int64_t) b.data.size(), a.abandon });
                h.sigmix(how * 1000 + a.level * 100 + b.level * 10 + (a.abandon ? 1 : 0));
                h.unusual++;
                if (how < 2) {
                        Slot *s1 = g_arena.alloc(sizeof(struct isal_zstream), PLACE_END, "zstream_reused", fill + 1, 16);
                        Slot *l1 = g_arena.alloc(level_buf_size_for(3, 1, 0), PLACE_END, "level_buf_reused", fill + 2, 16);
                        Slot *s2 = g_arena.alloc(sizeof(struct isal_zstream), PLACE_END, "zstream_fresh", fill + 3, 16);
                        Slot *l2 = g_arena.alloc(level_buf_size_for(3, 1, 0), PLACE_END, "level_buf_fresh", fill + 4, 16);
                        if (!s1 || !l1 || !s2 || !l2)
                                return;
                        struct isal_zstream *st1 = (struct isal_zstream *) s1->data, *st2 = (struct isal_zstream *) s2->data;
                        std::vector<uint8_t> oa, ob1, ob2;
                        std::vector<int64_t> ta, tb1, tb2;
                        if (GUARDED(gc, isal_deflate_init(st1))) {
                                report_fault(rr, h, gc.fi, "isal_deflate_init");
                                return;
                        }
                        if (!deflate(st1, l1, a, oa, "isal_deflate (first use)", ta))
                                return;
                        if (GUARDED(gc, {
                                    if (how == 0)
                                            isal_deflate_reset(st1);
                                    else
                                            isal_deflate_init(st1);
                            })) {
                                report_fault(rr, h, gc.fi, "isal_deflate_reset/init (reuse)");
                                return;
                        }
                        COUNT(how == 0 ? "mem.context_reuse_after_reset" : "mem.context_reuse_after_init");
                        if (a.abandon)
                                COUNT("mem.abandon_midstream_then_reset");
                        if (!deflate(st1, l1, b, ob1, "isal_deflate (after reset)", tb1))
                                return;
                        isal_deflate_init(st2);
                        if (!deflate(st2, l2, b, ob2, "isal_deflate (fresh)", tb2))
                                return;
                        h.rec("reuse_end", { (int64_t) ob1.size(), (int64_t) ob2.size(), (int64_t) hash_bytes(ob1.data(), ob1.size()) });
                        if (tb1 != tb2 || ob1 != ob2) {
                                size_t k = 0;
                                while (k < ob1.size() && k < ob2.size() && ob1[k] == ob2[k])
                                        k++;
                                rr.fail("C15.reuse_differs", strf("compressing %zu bytes (level %d wrap %d) on a context %s after a previous %s session gives %zu bytes, on a fresh context %zu bytes; first difference at output byte %zu", b.data.size(), b.level, b.wrap, how == 0 ? "reset" : "re-initialised", a.abandon ? "abandoned" : "completed", ob1.size(), ob2.size(), k));
                        }
                        return;
                }
                // ---- inflate reuse: streams made by the reference-checked compressor path (one-shot ISA-L), modes raw/gzip/zlib
                auto make_stream = [&](const Params &p, int &mode) {
                        std::vector<uint8_t> out;
                        Slot *ss = g_arena.alloc(sizeof(struct isal_zstream), PLACE_END, "src_zstream", 1, 16);
                        Slot *si = g_arena.alloc(p.data.size(), PLACE_END, "src_in", 0, 1), *so = g_arena.alloc(p.data.size() * 2 + 1000, PLACE_END, "src_out", 0, 1);
                        if (!ss || !si || !so)
                                return out;
                        memcpy(si->data, p.data.data(), p.data.size());
                        struct isal_zstream *st = (struct isal_zstream *) ss->data;
                        isal_deflate_stateless_init(st);
                        int w = p.wrap % 3; // 0 raw, 1 gzip, 2 -> zlib
                        st->gzip_flag = w == 0 ? IGZIP_DEFLATE : w == 1 ? IGZIP_GZIP : IGZIP_ZLIB;
                        mode = w == 0 ? ISAL_DEFLATE : w == 1 ? ISAL_GZIP : ISAL_ZLIB;
                        st->next_in = si->data;
                        st->avail_in = (uint32_t) p.data.size();
                        st->next_out = so->data;
                        st->avail_out = (uint32_t) so->len;
                        int ret = 0;
                        if (GUARDED(gc, ret = isal_deflate_stateless(st))) {
                                report_fault(rr, h, gc.fi, "isal_deflate_stateless (source)");
                                return out;
                        }
                        if (ret == 0)
                                out.assign(so->data, so->data + st->total_out);
                        g_arena.release(ss);
                        g_arena.release(si);
                        g_arena.release(so);
                        return out;
                };
                int ma = 0, mb = 0;
                std::vector<uint8_t> sa = make_stream(a, ma), sb = make_stream(b, mb);
                bool gram_b = false;
                if (plan.find("gram_a")) { // a valid foreign stream (long and incomplete codes) leaves richer decode tables behind
                        DefGenOut g = gen_deflate_stream(plan.at("gram_a"));
                        sa = g.bytes;
                        ma = ISAL_DEFLATE;
                }
                if (plan.find("gram_b")) { // the second stream may be malformed: whatever the verdict, it must not depend on the past
                        DefGenOut g = gen_deflate_stream(plan.at("gram_b"));
                        sb = g.bytes;
                        mb = ISAL_DEFLATE;
                        gram_b = true;
                        COUNT("xport.grammar_stream_on_reused_state");
                }
                if (rr.violated() || sb.empty())
                        return;
                Slot *s1 = g_arena.alloc(sizeof(struct inflate_state), PLACE_END, "inflate_state_reused", fill + 1, 8);
                Slot *s2 = g_arena.alloc(sizeof(struct inflate_state), PLACE_END, "inflate_state_fresh", fill + 2, 8);
                if (!s1 || !s2)
                        return;
                struct inflate_state *st1 = (struct inflate_state *) s1->data, *st2 = (struct inflate_state *) s2->data;
                std::vector<uint8_t> oa, ob1, ob2;
                std::vector<int64_t> ta, tb1, tb2;
                uint32_t chunk = 1 + (uint32_t) ((uint64_t) plan.geti("ichunk") % 5000);
                if (GUARDED(gc, isal_inflate_init(st1))) {
                        report_fault(rr, h, gc.fi, "isal_inflate_init");
                        return;
                }
                size_t stop_a = a.abandon ? sa.size() / 2 : sa.size();
                if (how == 5 && (plan.geti("cut") & 1) && sa.size() > 12)
                        stop_a = sa.size() - 1 - (size_t) ((uint64_t) (plan.geti("cut") >> 1) % 11); // abandoned inside the trailer / the last block
                if (!inflate(st1, ma, sa, chunk, stop_a, oa, ta))
                        return;
                if (how == 5) {
                        // isal_inflate_stateless sets every field it depends on itself: called on a state that a streaming session left in any
                        // condition (no reset, no init) it must behave as on a freshly initialised one
                        int osmode = (int) ((uint64_t) plan.geti("osmode") % 3);
                        std::vector<uint8_t> in = sb;
                        int m = mb;
                        size_t hl = mb == ISAL_GZIP ? 10 : mb == ISAL_ZLIB ? 2 : 0;
                        if (osmode && hl && in.size() > hl && !gram_b) {
                                in.erase(in.begin(), in.begin() + hl);
                                m = mb == ISAL_GZIP ? (osmode == 1 ? ISAL_GZIP_NO_HDR_VER : ISAL_GZIP_NO_HDR) : (osmode == 1 ? ISAL_ZLIB_NO_HDR_VER : ISAL_ZLIB_NO_HDR);
                        }
                        if (plan.geti("cut") & 64 && in.size() > 4) // and now and then a trailer that does not match
                                in[in.size() - 1 - (size_t) ((uint64_t) (plan.geti("cut") >> 7) % 4)] ^= 0x40;
                        auto oneshot = [&](struct inflate_state *st, std::vector<uint8_t> &out, int &ret, uint32_t &crc) {
                                Slot *si = g_arena.alloc(in.size(), PLACE_END, "os_in", 0, 1), *so = g_arena.alloc(b.data.size() + 64, PLACE_END, "os_out", fill + 50, 1);
                                if (!si || !so)
                                        return false;
                                memcpy(si->data, in.data(), in.size());
                                st->crc_flag = m;
                                st->next_in = si->data;
                                st->avail_in = (uint32_t) in.size();
                                st->next_out = so->data;
                                st->avail_out = (uint32_t) so->len;
                                h.calls++;
                                if (GUARDED(gc, ret = isal_inflate_stateless(st))) {
                                        report_fault(rr, h, gc.fi, "isal_inflate_stateless (state used before, not reset)");
                                        return false;
                                }
                                if (ret >= 0)
                                        out.assign(so->data, so->data + (so->len - st->avail_out));
                                crc = ret == 0 ? st->crc : 0;
                                g_arena.release(si);
                                g_arena.release(so);
                                return true;
                        };
                        int r1 = 0, r2 = 0;
                        uint32_t c1 = 0, c2 = 0;
                        COUNT("mem.oneshot_decode_on_used_state");
                        if (!oneshot(st1, ob1, r1, c1))
                                return;
                        isal_inflate_init(st2);
                        if (!oneshot(st2, ob2, r2, c2))
                                return;
                        h.rec("reuse_end", { r1, r2, (int64_t) ob1.size(), (int64_t) hash_bytes(ob2.data(), ob2.size()), m });
                        if ((r1 != r2 || ob1 != ob2 || c1 != c2) && m != ISAL_DEFLATE && m != ISAL_GZIP_NO_HDR && m != ISAL_ZLIB_NO_HDR)
                                rr.alt = "C11"; // a verifying mode whose verdict depends on what the state was used for before
                        if (r1 != r2 || ob1 != ob2 || c1 != c2)
                                rr.fail("C15.reuse_differs", strf("one-shot decompression of a %zu-byte stream (mode %d) on a state a streaming session had used before (stopped after %zu of %zu bytes, no reset): returns %d with %zu bytes / crc %08x; on a freshly initialised state %d with %zu bytes / crc %08x", in.size(), m, stop_a, sa.size(), r1, ob1.size(), c1, r2, ob2.size(), c2));
                        return;
                }
                if (GUARDED(gc, {
                            if (how == 2)
                                    isal_inflate_reset(st1);
                            else
                                    isal_inflate_init(st1);
                    })) {
                        report_fault(rr, h, gc.fi, "isal_inflate_reset/init (reuse)");
                        return;
                }
                COUNT(how == 2 ? "mem.context_reuse_after_reset" : "mem.context_reuse_after_init");
                if (a.abandon)
                        COUNT("mem.abandon_midstream_then_reset");
                if (!inflate(st1, mb, sb, chunk, sb.size(), ob1, tb1))
                        return;
                isal_inflate_init(st2);
                if (!inflate(st2, mb, sb, chunk, sb.size(), ob2, tb2))
                        return;
                h.rec("reuse_end", { (int64_t) ob1.size(), (int64_t) ob2.size(), (int64_t) hash_bytes(ob1.data(), ob1.size()) });
                bool errored = !tb2.empty() && tb2.back() < 0 && tb2.size() % 3 == 1;
                if (tb1 != tb2 || ob1 != ob2 || (!errored && (st1->crc != st2->crc || st1->total_out != st2->total_out)))
                        rr.fail("C15.reuse_differs", strf("decompressing the same %zu-byte stream (mode %d) on a %s state after a previous %s session: %zu bytes out / crc %08x; on a fresh state: %zu bytes out / crc %08x", sb.size(), mb, how == 2 ? "reset" : "re-initialised", a.abandon ? "abandoned" : "completed", ob1.size(), st1->crc, ob2.size(), st2->crc));
                else if (!gram_b && ob2 != b.data && tb2.size() >= 3 && tb2[tb2.size() - 3] >= 0)
                        rr.fail("C07.roundtrip", "reuse session: fresh-state decode does not reproduce the data");
        }
};
} // namespace

static void exec_reuse(const Json &plan, RunResult &rr, Hist &h)
{
        Reuse s(plan, rr, h);
        s.run();
}

static Json gen_reuse(Rng &r0, const std::string &focus, int tier)
{
        Rng r(r0.u64(), "reuse.plan");
        Json p = Json::obj();
        p.set("prof", "reuse").set("focus", focus).set("how", focus == "C10" ? 4 : focus == "C11" ? 5 : (int) r.below(6)).set("cut", (int) r.below(1 << 10)).set("osmode", (int) r.below(3)).set("ichunk", (int) r.logsize(5000)).set("between", r.chance(1, 2) ? 0 : (int) r.below(4));
        for (const char *nm : { "a", "b" }) {
                Json j = Json::obj();
                j.set("level", (int) r.below(4)).set("wrap", (int) r.below(5)).set("hb", (int) (r.chance(1, 2) ? 0 : 9 + r.below(7))).set("fl", (int) r.below(4));
                j.set("data", gen_data_spec(r, r.chance(1, 6) ? 120000 : 6000, 0)).set("abandon", (int) r.chance(1, 3));
                // one-shot chain only: level-buffer size class, NULL level buffer at level 1, flush, end_of_stream, output space as a fraction of the bound
                j.set("lbcls", (int) (r.chance(1, 2) ? 0 : r.below(5))).set("lbnull", (int) r.chance(1, 4)).set("osfl", (int) r.chance(1, 4)).set("eos", (int) !r.chance(1, 5));
                j.set("ofrac", (int) (r.chance(1, 2) ? 256 : r.below(257)));
                Json ch = Json::arr();
                for (int k = (int) r.below(5); k > 0; k--)
                        ch.push((uint32_t) r.logsize(60000));
                j.set("chunks", ch);
                p.set(nm, j);
        }
        if (r.chance(1, 3)) {
                Json g = Json::obj();
                g.set("s", r.u64() >> 16).set("n", (uint64_t) r.logsize(20000)).set("fault", 0).set("dict", 0).set("ld", r.chance(1, 3) ? (int) (1 + r.below(3)) : 0);
                p.set("gram_a", g);
        }
        if (r.chance(1, 3)) {
                Json g = Json::obj();
                g.set("s", r.u64() >> 16).set("n", (uint64_t) r.logsize(5000)).set("fault", r.chance(2, 3) ? (int) (1 + r.below(GF_NKINDS - 1)) : 0).set("dict", 0).set("ld", r.chance(1, 3) ? (int) (1 + r.below(3)) : 0);
                p.set("gram_b", g);
        }
        Json mem = Json::obj();
        mem.set("fill", r.u64() >> 24).set("skip", r.chance(1, 2) ? 0 : (int) r.below(4096));
        p.set("mem", mem);
        (void) tier;
        return p;
}

extern const Profile prof_reuse;
const Profile prof_reuse = { "reuse", gen_reuse, exec_reuse };
