# /verif/Makefile — builds the library under test from /repo's *current working tree* with the
# repo's own recipe (out of tree, nothing written under /repo) and the simulator against it.
REPO    ?= /repo
FLAVOUR ?= default
B       := build/$(FLAVOUR)
CXX     := g++
CXXFLAGS:= -std=c++17 -O2 -g -Wall -Wno-unused-function -Wno-missing-field-initializers -I$(REPO)/include -I$(REPO)/igzip -I$(REPO)/erasure_code -I$(REPO)/crc -I$(REPO)/raid -I$(REPO)/mem -Isim $(FLAVOUR_DEFS) -DSIM_FLAVOUR='"$(FLAVOUR)"'
SRCS    := $(wildcard sim/*.cc)
OBJS    := $(patsubst sim/%.cc,$(B)/o/%.o,$(SRCS))
ifeq ($(FLAVOUR),hist8k)
FLAVOUR_DEFS := -DIGZIP_HIST_SIZE="(8*1024)"
endif
ifeq ($(FLAVOUR),longhuff)
FLAVOUR_DEFS := -DLONGER_HUFFTABLE
endif
ifeq ($(FLAVOUR),cov)
SANLD := --coverage
endif
ifeq ($(FLAVOUR),asan)
CXXFLAGS += -fsanitize=address -fno-omit-frame-pointer
SANLD := -fsanitize=address
endif

all: $(B)/isal-sim

lib:
	@bin/buildlib $(FLAVOUR)

$(B)/o/%.o: sim/%.cc $(wildcard sim/*.h) $(B)/lib.stamp
	@mkdir -p $(B)/o
	$(CXX) $(CXXFLAGS) -c $< -o $@

$(B)/isal-sim: $(OBJS) $(B)/lib.stamp
	$(CXX) $(SANLD) -o $@ $(OBJS) -L$(B) -lisal_sim -Wl,-rpath,'$$ORIGIN' -lz -lpthread -ldl -rdynamic

$(B)/lib.stamp: lib

.PHONY: all lib clean
clean:
	rm -rf build
