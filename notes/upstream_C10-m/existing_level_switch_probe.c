#include <stdio.h>
#include <stdlib.h>
#include <string.h>
#include "igzip_lib.h"
#define N (200*1024)
static unsigned char in[N], out[2*N], back[N];
int main(int argc,char**argv){
  int from=atoi(argv[1]), to=atoi(argv[2]); int flush=argc>3?atoi(argv[3]):0;
  unsigned x=1; for(int i=0;i<N;i++){x=x*1103515245+12345; in[i]="abcdefgh"[(x>>16)&7]; if((x&0xf000)==0) in[i]=x>>20;}
  struct isal_zstream z; unsigned char*lb=malloc(ISAL_DEF_LVL3_DEFAULT); memset(lb,0xA5,ISAL_DEF_LVL3_DEFAULT);
  isal_deflate_init(&z); z.level=from; z.level_buf=lb; z.level_buf_size=ISAL_DEF_LVL3_DEFAULT;
  z.next_in=in; z.avail_in=N/2; z.next_out=out; z.avail_out=sizeof out; z.flush=flush;
  int r=isal_deflate(&z); printf("call1 r=%d state=%d tin=%u\n",r,z.internal_state.state,z.total_in);
  z.level=to; z.next_in=in+z.total_in; z.avail_in=N-z.total_in; z.end_of_stream=1; z.flush=0;
  r=isal_deflate(&z); printf("call2 r=%d state=%d tin=%u tout=%u\n",r,z.internal_state.state,z.total_in,z.total_out);
  struct inflate_state s; isal_inflate_init(&s); s.next_in=out; s.avail_in=z.total_out; s.next_out=back; s.avail_out=N;
  r=isal_inflate(&s); printf("inflate r=%d out=%u cmp=%d\n",r,s.total_out,memcmp(in,back,N)); return 0;}
