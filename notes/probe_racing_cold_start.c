// throwaway: racing cold start under a deterministic scheduler: CPUID-fault opens window, TF steps, park in handler
#define _GNU_SOURCE
#include <stdio.h>
#include <stdlib.h>
#include <string.h>
#include <signal.h>
#include <pthread.h>
#include <ucontext.h>
#include <unistd.h>
#include <stdint.h>
#include <sys/syscall.h>
#include <linux/futex.h>
#include <asm/prctl.h>
#include "crc.h"
static volatile int turn=0;            // which task may run
static __thread int me=-1; static __thread long steps; static __thread int in_window;
static int preempt_at; static volatile long total_steps[2], cpuids[2], xgetbvs[2]; static volatile int switches;
static void fwait(int want){ while(__atomic_load_n(&turn,__ATOMIC_ACQUIRE)!=want) syscall(SYS_futex,&turn,FUTEX_WAIT,1-want,0,0,0); }
static void fgive(int to){ __atomic_store_n(&turn,to,__ATOMIC_RELEASE); syscall(SYS_futex,&turn,FUTEX_WAKE,8,0,0,0); }
static uint32_t c1=(1)|(1<<1)|(1<<19)|(1<<20)|(1<<27)|(1<<28), c7b=(1<<5), c7c=0, xcr0=7; // simulated AVX2 machine
static void on_segv(int s,siginfo_t*si,void*u){ ucontext_t*uc=u; greg_t*g=uc->uc_mcontext.gregs; uint8_t*ip=(uint8_t*)g[REG_RIP];
  if(ip[0]==0x0f&&ip[1]==0xa2){ uint32_t leaf=g[REG_RAX]; g[REG_RAX]=leaf==1?0x806f8:0; g[REG_RBX]=leaf==7?c7b:0; g[REG_RCX]=leaf==1?c1:leaf==7?c7c:0; g[REG_RDX]=0; g[REG_RIP]+=2; cpuids[me]++; if(!in_window){in_window=1; steps=0;} g[REG_EFL]|=0x100; return; }
  fprintf(stderr,"stray SEGV\n"); _exit(3); }
static void on_trap(int s,siginfo_t*si,void*u){ ucontext_t*uc=u; greg_t*g=uc->uc_mcontext.gregs; uint8_t*ip=(uint8_t*)g[REG_RIP]; steps++; total_steps[me]++;
  if(ip[0]==0x0f&&ip[1]==0x01&&ip[2]==0xd0){ g[REG_RAX]=xcr0; g[REG_RDX]=0; g[REG_RIP]+=3; xgetbvs[me]++; }
  if(me==0 && steps==preempt_at){ switches++; fgive(1); fwait(0); }   // park task 0 inside the handler, run task 1
  if(steps>=120){ g[REG_EFL]&=~0x100UL; in_window=0; } }
static uint8_t buf[777]; static uint32_t res[2];
static void* task(void*arg){ me=(int)(long)arg; syscall(SYS_arch_prctl,ARCH_SET_CPUID,0UL); fwait(me); res[me]=crc32_ieee(0x1234,buf,sizeof buf); syscall(SYS_arch_prctl,ARCH_SET_CPUID,1UL); fgive(1-me); return 0; }
int main(int argc,char**argv){ preempt_at=atoi(argv[1]); for(int i=0;i<777;i++)buf[i]=i*31;
  struct sigaction sa; memset(&sa,0,sizeof sa); sa.sa_flags=SA_SIGINFO; sa.sa_sigaction=on_segv; sigaction(SIGSEGV,&sa,0); sa.sa_sigaction=on_trap; sigaction(SIGTRAP,&sa,0);
  uint32_t ref=crc32_ieee_base(0x1234,buf,sizeof buf);
  pthread_t t[2]; turn=0; pthread_create(&t[0],0,task,(void*)0L); pthread_create(&t[1],0,task,(void*)1L); pthread_join(t[0],0); pthread_join(t[1],0);
  printf("preempt_at=%3d  res0=%08x res1=%08x ref=%08x %s | steps t0=%ld t1=%ld cpuid t0=%ld t1=%ld xgetbv t0=%ld t1=%ld switches=%d\n",preempt_at,res[0],res[1],ref,(res[0]==ref&&res[1]==ref)?"OK":"MISMATCH",total_steps[0],total_steps[1],cpuids[0],cpuids[1],xgetbvs[0],xgetbvs[1],switches); }
