#include <stdio.h>
#include <string.h>
#include <stdlib.h>
#include "igzip_lib.h"
int main(void){
  uint8_t out[4096]; uint8_t data[100]; memset(data,'a',100);
  struct isal_zstream s; struct isal_gzip_header h;
  isal_deflate_stateless_init(&s); isal_gzip_header_init(&h);
  h.name="name.txt"; h.name_buf_len=9; h.comment="comment"; h.comment_buf_len=8; h.hcrc=1;
  uint8_t ex[5]={1,2,3,4,5}; h.extra=ex; h.extra_len=5; h.extra_buf_len=5;
  s.next_out=out; s.avail_out=sizeof out;
  if(isal_write_gzip_header(&s,&h)) return 2;
  int hl=s.total_out;
  s.gzip_flag=IGZIP_GZIP_NO_HDR; s.next_in=data; s.avail_in=100; s.end_of_stream=1;
  if(isal_deflate_stateless(&s)) return 3;
  int tl=s.total_out; printf("hdr %d total %d\n",hl,tl);
  for(int chunk=1; chunk<=tl; chunk++){
    struct inflate_state st; isal_inflate_init(&st); st.crc_flag=ISAL_GZIP;
    uint8_t dec[4096]; st.next_out=dec; st.avail_out=sizeof dec; int pos=0,ret=0;
    while(pos<tl){ int n= tl-pos<chunk?tl-pos:chunk; st.next_in=out+pos; st.avail_in=n; ret=isal_inflate(&st); pos+=n-st.avail_in; if(ret||st.block_state==ISAL_BLOCK_FINISH) break; if(st.avail_in) break;}
    if(ret||st.total_out!=100||memcmp(dec,data,100)) printf("chunk %d: ret %d total_out %u state %d\n",chunk,ret,st.total_out,st.block_state);
  }
  return 0;}
