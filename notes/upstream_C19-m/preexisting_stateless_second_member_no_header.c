#include <stdio.h>
#include <string.h>
#include "igzip_lib.h"
int main(void){
  uint8_t out[4096], data[100]; memset(data,'a',100);
  struct isal_zstream s; isal_deflate_stateless_init(&s);
  for(int i=0;i<3;i++){
    s.gzip_flag=IGZIP_ZLIB; s.end_of_stream=1; s.flush=NO_FLUSH;
    s.next_in=data; s.avail_in=100; s.next_out=out; s.avail_out=sizeof out;
    int r=isal_deflate_stateless(&s);
    printf("call %d ret %d first bytes %02x %02x gzip_flag %d\n",i,r,out[0],out[1],s.gzip_flag);
  }
  return 0;}
