#include <stdio.h>
#include <string.h>
#include <stdlib.h>
#include "igzip_lib.h"
int main(void){
  uint8_t src[100]; for(int i=0;i<100;i++) src[i]=i*7;
  uint8_t comp[1024]; struct isal_zstream s; struct isal_gzip_header h;
  isal_deflate_init(&s); s.gzip_flag=IGZIP_GZIP_NO_HDR; s.next_out=comp; s.avail_out=sizeof comp;
  isal_gzip_header_init(&h); h.name="abc"; h.name_buf_len=4; h.comment="hello"; h.comment_buf_len=6; h.hcrc=1;
  if(isal_write_gzip_header(&s,&h)) return 2;
  uint32_t hl=s.total_out;
  s.next_in=src; s.avail_in=100; s.end_of_stream=1; s.flush=NO_FLUSH;
  if(isal_deflate(&s)!=COMP_OK) return 3;
  uint32_t cl=s.total_out;
  int bad=0;
  for(uint32_t split=1; split<hl+2; split++){
    struct inflate_state st; uint8_t out[200];
    isal_inflate_init(&st); st.crc_flag=ISAL_GZIP;
    st.next_out=out; st.avail_out=sizeof out;
    st.next_in=comp; st.avail_in=split;
    int r=isal_inflate(&st);
    if(r==0){ st.next_in=comp+split; st.avail_in=cl-split; r=isal_inflate(&st);}
    int ok = r==0 && st.block_state==ISAL_BLOCK_FINISH && st.total_out==100 && !memcmp(out,src,100);
    if(!ok){ printf("split %u (hdr len %u): ret %d total_out %u\n",split,hl,r,(unsigned)st.total_out); bad++; }
  }
  return bad?1:0;
}
