// throwaway: make libisal.so's RW segment read-only after warm-up, exercise APIs, report any write fault
#define _GNU_SOURCE
#include <stdio.h>
#include <stdlib.h>
#include <string.h>
#include <signal.h>
#include <link.h>
#include <sys/mman.h>
#include <ucontext.h>
#include <dlfcn.h>
#include "crc.h"
#include "crc64.h"
#include "erasure_code.h"
#include "gf_vect_mul.h"
#include "igzip_lib.h"
#include "mem_routines.h"
#include "raid.h"
static uintptr_t rw_lo, rw_hi;
static int cb(struct dl_phdr_info*i,size_t sz,void*d){ if(!strstr(i->dlpi_name,"libisal")) return 0; for(int k=0;k<i->dlpi_phnum;k++){ const ElfW(Phdr)*p=&i->dlpi_phdr[k]; if(p->p_type==PT_LOAD && (p->p_flags&PF_W)){ rw_lo=(i->dlpi_addr+p->p_vaddr)&~4095UL; rw_hi=(i->dlpi_addr+p->p_vaddr+p->p_memsz+4095)&~4095UL; } } return 0; }
static volatile int nfault; 
static void h(int s,siginfo_t*si,void*u){ ucontext_t*uc=u; Dl_info di; void*ip=(void*)uc->uc_mcontext.gregs[REG_RIP]; dladdr(ip,&di); uintptr_t a=(uintptr_t)si->si_addr;
  if(a>=rw_lo&&a<rw_hi){ nfault++; Dl_info dd; dladdr((void*)a,&dd); fprintf(stderr,"WRITE to lib data +0x%lx (near %s) from %s+0x%lx\n",a-rw_lo,dd.dli_sname?dd.dli_sname:"?",di.dli_sname?di.dli_sname:"?",(uintptr_t)ip-(uintptr_t)di.dli_saddr); mprotect((void*)(a&~4095UL),4096,PROT_READ|PROT_WRITE); return; }
  fprintf(stderr,"stray SEGV %p\n",si->si_addr); _exit(3);} 
static void workload(int pass){ static uint8_t in[70000], out[140000], dec[70000]; for(int i=0;i<70000;i++) in[i]=(i*7+pass)%251 ^ (i>>9);
  for(int lvl=0;lvl<4;lvl++) for(int wrap=0;wrap<5;wrap++){ struct isal_zstream s; isal_deflate_init(&s); s.level=lvl; static uint8_t lb[ISAL_DEF_LVL3_EXTRA_LARGE]; s.level_buf=lb; s.level_buf_size=sizeof lb; s.gzip_flag=wrap; s.next_in=in; s.avail_in=70000; s.end_of_stream=1; s.next_out=out; s.avail_out=sizeof out; s.flush=pass%3; isal_deflate(&s); s.flush=0; isal_deflate(&s);
     struct isal_zstream t; isal_deflate_stateless_init(&t); t.level=lvl; t.level_buf=lb; t.level_buf_size=sizeof lb; t.gzip_flag=wrap; t.next_in=in; t.avail_in=3000; t.next_out=out+100000; t.avail_out=40000; isal_deflate_stateless(&t);
     static struct inflate_state st; isal_inflate_init(&st); st.crc_flag= wrap==0?0:wrap==1?ISAL_GZIP:wrap==2?ISAL_GZIP_NO_HDR_VER:wrap==3?ISAL_ZLIB:ISAL_ZLIB_NO_HDR_VER; st.next_in=out; st.avail_in=s.total_out; st.next_out=dec; st.avail_out=sizeof dec; isal_inflate(&st); if(st.total_out!=70000||memcmp(dec,in,70000)) fprintf(stderr,"roundtrip mismatch lvl %d wrap %d\n",lvl,wrap);
     isal_inflate_init(&st); st.crc_flag= wrap==1?ISAL_GZIP:wrap==3?ISAL_ZLIB:0; st.next_in=out+100000; st.avail_in=t.total_out; st.next_out=dec; st.avail_out=sizeof dec; isal_inflate_stateless(&st); }
  static struct isal_huff_histogram hist; memset(&hist,0,sizeof hist); isal_update_histogram(in,70000,&hist); static struct isal_hufftables ht; isal_create_hufftables(&ht,&hist); isal_create_hufftables_subset(&ht,&hist);
  struct isal_zstream s; isal_deflate_init(&s); static struct isal_dict d; isal_deflate_process_dict(&s,&d,in,5000); isal_deflate_reset_dict(&s,&d); isal_deflate_set_dict(&s,in,100);
  volatile uint64_t acc=0; acc+=crc32_ieee(0,in,1000)+crc32_iscsi(in,1000,0)+crc32_gzip_refl(0,in,1000)+crc16_t10dif(0,in,1000)+crc16_t10dif_copy(0,out,in,1000)+isal_adler32(1,in,1000);
  acc+=crc64_ecma_refl(0,in,999)+crc64_ecma_norm(0,in,999)+crc64_iso_refl(0,in,999)+crc64_iso_norm(0,in,999)+crc64_jones_refl(0,in,999)+crc64_jones_norm(0,in,999)+crc64_rocksoft_refl(0,in,999)+crc64_rocksoft_norm(0,in,999);
  unsigned char a[14*10], g[32*10*4], inv[10*10]; gf_gen_cauchy1_matrix(a,14,10); gf_gen_rs_matrix(a,14,10); gf_gen_cauchy1_matrix(a,14,10); ec_init_tables(10,4,&a[100],g); unsigned char*src[10],*dst[4]; for(int i=0;i<10;i++)src[i]=in+i*4096; for(int i=0;i<4;i++)dst[i]=out+i*4096; ec_encode_data(4096,10,4,g,src,dst); for(int i=0;i<10;i++) ec_encode_data_update(4096,10,4,i,g,src[i],dst); gf_vect_dot_prod(4096,10,g,src,dst[0]); gf_vect_mad(4096,10,3,g,src[3],dst[0]); gf_vect_mul(4096,g,in,out); gf_invert_matrix(a,inv,10); acc+=gf_mul(3,7)+gf_inv(9);
  void*arr[6]; static uint8_t r[6][4096] __attribute__((aligned(64))); for(int i=0;i<6;i++){arr[i]=r[i]; memcpy(r[i],in+i*4096,4096);} xor_gen(6,4096,arr); acc+=xor_check(6,4096,arr); pq_gen(6,4096,arr); acc+=pq_check(6,4096,arr); acc+=isal_zero_detect(in,5000);
  struct isal_gzip_header gh; isal_gzip_header_init(&gh); struct isal_zlib_header zh; isal_zlib_header_init(&zh); isal_deflate_init(&s); s.next_out=out; s.avail_out=100; isal_write_gzip_header(&s,&gh); isal_write_zlib_header(&s,&zh);
}
int main(){ dl_iterate_phdr(cb,0); printf("lib RW pages %lx..%lx (%lu KiB)\n",rw_lo,rw_hi,(rw_hi-rw_lo)/1024);
  workload(0); /* warm-up: resolve all slots */
  struct sigaction sa; memset(&sa,0,sizeof sa); sa.sa_sigaction=h; sa.sa_flags=SA_SIGINFO; sigaction(SIGSEGV,&sa,0);
  if(mprotect((void*)rw_lo,rw_hi-rw_lo,PROT_READ)) perror("mprotect");
  for(int p=1;p<4;p++) workload(p);
  printf("write faults into library data after warm-up: %d\n",nfault); }
