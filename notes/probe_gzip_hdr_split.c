#include <stdio.h>
#include <string.h>
#include <stdlib.h>
#include "igzip_lib.h"
int main(int argc,char**argv){
  uint8_t data[1000]; for(int i=0;i<1000;i++) data[i]=i%7+'a';
  uint8_t comp[4096]; struct isal_zstream s; isal_deflate_init(&s);
  s.next_out=comp; s.avail_out=sizeof comp; s.gzip_flag=IGZIP_GZIP_NO_HDR; s.end_of_stream=1; s.flush=NO_FLUSH;
  struct isal_gzip_header h; isal_gzip_header_init(&h);
  uint8_t extra[5]={1,2,3,4,5}; h.extra=extra; h.extra_len=5; h.extra_buf_len=5;
  char name[]="file.txt"; h.name=name; h.name_buf_len=sizeof name;
  h.hcrc = atoi(argv[1]);
  uint32_t r=isal_write_gzip_header(&s,&h); printf("hdr ret %u, hdr bytes %u\n",r,s.total_out);
  uint32_t hb=s.total_out;
  s.next_in=data; s.avail_in=1000; isal_deflate(&s); uint32_t clen=s.total_out; printf("clen %u state %d\n",clen,s.internal_state.state);
  for(uint32_t split=1; split<hb+3; split++){
    struct inflate_state st; isal_inflate_init(&st); st.crc_flag=ISAL_GZIP; uint8_t out[2000];
    st.next_out=out; st.avail_out=sizeof out;
    st.next_in=comp; st.avail_in=split; int r1=isal_inflate(&st);
    int r2=-99; if(r1==0){ st.next_in=comp+split; st.avail_in=clen-split; r2=isal_inflate(&st);} 
    int ok = (r2==0 && st.block_state==ISAL_BLOCK_FINISH && st.total_out==1000 && !memcmp(out,data,1000));
    printf("split %2u r1=%d r2=%d bs=%d total_out=%u %s\n",split,r1,r2,st.block_state,st.total_out, ok?"ok":"FAIL");
  }
}
