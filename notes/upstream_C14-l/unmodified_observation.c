/*
 * Side observation on the UNMODIFIED library (not the seeded change).
 *
 * Level 0, stateful.  Call 1 feeds A with FULL_FLUSH but with exactly so much
 * output space that the end-of-block symbol of A's block fits and the flush
 * marker does not (the call returns with avail_in == 0, avail_out == 0 and the
 * sync flush still pending, internal state ZSTATE_SYNC_FLUSH, possibly
 * + ZSTATE_TMP_OFFSET).  Call 2 supplies new input (a repeat of A) together
 * with FULL_FLUSH and plenty of output space.  The pending marker 00 00 FF FF
 * is now written (sync_flush sets has_hist = IGZIP_NO_HIST), but the hash
 * table is only cleared at the top of isal_deflate(), which has already been
 * passed, so the data compressed after the marker is coded as matches into A.
 * The bytes after the first marker therefore do not decode on their own
 * (isal_inflate: ISAL_INVALID_LOOKBACK).
 *
 * Exit status 1 if that behaviour is observed for some output cut-off.
 */
#include <stdio.h>
#include <stdlib.h>
#include <string.h>
#include <stdint.h>
#include "igzip_lib.h"

static uint64_t st = 88172645463325252ull;
static uint32_t
rnd(void)
{
        st ^= st << 13;
        st ^= st >> 7;
        st ^= st << 17;
        return st >> 11;
}

int
main(void)
{
        static uint8_t A[4096], out[1 << 16], dec[1 << 16];
        struct isal_zstream s;
        int i, cut, full, seen = 0;

        for (i = 0; i < 4096; i++)
                A[i] = rnd();

        isal_deflate_init(&s);
        s.next_in = A;
        s.avail_in = 4096;
        s.next_out = out;
        s.avail_out = sizeof out;
        s.flush = FULL_FLUSH;
        isal_deflate(&s);
        full = s.total_out;

        for (cut = full - 12; cut < full; cut++) {
                struct inflate_state is;
                uint32_t o1, o2, m = 0, k;
                int st1, r;

                isal_deflate_init(&s);
                s.next_in = A;
                s.avail_in = 4096;
                s.next_out = out;
                s.avail_out = cut;
                s.flush = FULL_FLUSH;
                isal_deflate(&s);
                o1 = s.total_out;
                st1 = s.internal_state.state;
                if (s.avail_in != 0)
                        continue;

                s.next_in = A;
                s.avail_in = 4096;
                s.avail_out = sizeof out - o1;
                s.flush = FULL_FLUSH;
                isal_deflate(&s);
                o2 = s.total_out;

                for (k = 0; k + 4 <= o2; k++)
                        if (!memcmp(out + k, "\x00\x00\xff\xff", 4)) {
                                m = k + 4;
                                break;
                        }
                if (m == 0 || m >= o2)
                        continue;
                isal_inflate_init(&is);
                is.crc_flag = ISAL_DEFLATE;
                is.next_in = out + m;
                is.avail_in = o2 - m;
                is.next_out = dec;
                is.avail_out = sizeof dec;
                r = isal_inflate(&is);
                printf("cut=%d: state after call 1 = %d; first marker ends at %u of %u; "
                       "suffix decoded alone: ret=%d, %u bytes\n",
                       cut, st1, m, o2, r, is.total_out);
                if (r < 0 || is.total_out != 4096 || memcmp(dec, A, 4096))
                        seen = 1;
        }
        printf(seen ? "observed: data after a full-flush marker refers to data before it\n"
                    : "not observed\n");
        return seen;
}
