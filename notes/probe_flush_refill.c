// throwaway: flush points: prefix decodable, ends with 00 00 ff ff, full-flush independence
#include <stdio.h>
#include <stdlib.h>
#include <string.h>
#include <zlib.h>
#include "igzip_lib.h"
static uint64_t s; static uint32_t rnd(void){ s^=s<<13; s^=s>>7; s^=s<<17; return (uint32_t)(s>>11);} 
static uint32_t pick(uint32_t n){return n?rnd()%n:0;}
static int lvl_sizes[4]={0,ISAL_DEF_LVL1_MIN,ISAL_DEF_LVL2_MIN,ISAL_DEF_LVL3_MIN};
int main(int argc,char**argv){ long n0=atol(argv[1]),n=atol(argv[2]); long bad=0, fps=0, nomark=0, empties=0;
 for(long it=n0;it<n;it++){ s=0x9e3779b97f4a7c15ULL*(it+1)+777;
  uint32_t len=pick(8)==0?pick(70000):pick(2000); uint8_t*in=malloc(len+1);
  int kind=pick(3); for(uint32_t i=0;i<len;i++){ in[i]= kind==0?rnd(): kind==1?(rnd()%4+'a'): (i%97);} 
  struct isal_zstream st; memset(&st,rnd(),sizeof st); isal_deflate_init(&st);
  int level=pick(4); st.level=level; uint32_t lbs=lvl_sizes[level]+(pick(2)?pick(100000):0); uint8_t*lb=malloc(lbs+1); st.level_buf=lb; st.level_buf_size=lbs;
  st.gzip_flag=0; uint32_t cap=len*2+4000000; uint8_t*out=malloc(cap); uint32_t outn=0, inpos=0; int calls=0; int fail=0;
  int om=pick(3), imode=pick(3); st.avail_in=0; st.next_in=in; uint32_t last_full_out=0,last_full_in=0; int have_full=0;
  while(st.internal_state.state!=ZSTATE_END && !fail){
    if(st.avail_in==0 && inpos<len){ uint32_t c= imode==0?pick(40): imode==1?1+pick(300):1+pick(70000); if(c>len-inpos)c=len-inpos; st.next_in=in+inpos; st.avail_in=c; inpos+=c; }
    if(inpos==len) st.end_of_stream= st.end_of_stream|| pick(3)==0;
    st.flush = pick(3)==0? 1+pick(2): NO_FLUSH; int fl=st.flush;
    uint32_t oc= om==0?1+pick(12): om==1?1+pick(500):cap; if(oc>cap-outn)oc=cap-outn; st.next_out=out+outn; st.avail_out=oc;
    uint32_t ai0=st.avail_in; int s0=st.internal_state.state; int r=isal_deflate(&st); calls++; if(argc>3) printf("call %d: ai %u->%u eos=%d fl=%d oc=%u wrote=%u st %d->%d total_in=%u bvalid=%u bproc=%u has_hist=%d\n",calls,ai0,st.avail_in,st.end_of_stream,fl,oc,oc-st.avail_out,s0,st.internal_state.state,st.total_in,st.internal_state.b_bytes_valid,st.internal_state.b_bytes_processed,st.internal_state.has_hist); if(r){printf("it %ld ret %d\n",it,r);fail=1;break;} outn+=oc-st.avail_out;
    if(fl && st.avail_in==0 && st.avail_out>0 && st.internal_state.state!=ZSTATE_END && !st.end_of_stream){ fps++;
      uint32_t fed=st.total_in; // all consumed incl. buffered
      int mark = outn>=4 && out[outn-4]==0&&out[outn-3]==0&&out[outn-2]==0xff&&out[outn-1]==0xff;
      if(!mark){ nomark++; if(outn==0) empties++; else { printf("it %ld NOMARK outn=%u fed=%u state=%d lvl=%d fl=%d\n",it,outn,fed,st.internal_state.state,level,fl); fail=1;} }
      z_stream z; memset(&z,0,sizeof z); inflateInit2(&z,-15); uint8_t*dec=malloc(fed+10); z.next_in=out; z.avail_in=outn; z.next_out=dec; z.avail_out=fed+10; int zr=inflate(&z,Z_SYNC_FLUSH);
      if((zr!=Z_OK&&zr!=Z_BUF_ERROR) || z.total_out!=fed || memcmp(dec,in,fed) || z.avail_in){ printf("it %ld PREFIX FAIL zr=%d tout=%lu fed=%u outn=%u state=%d lvl=%d fl=%d\n",it,zr,z.total_out,fed,outn,st.internal_state.state,level,fl); fail=1; }
      inflateEnd(&z); free(dec);
      if(fl==2){ last_full_out=outn; last_full_in=fed; have_full=1; }
    }
    if(calls>3000000){printf("it %ld too many calls\n",it);fail=1;}
  }
  if(!fail && have_full){ // decode suffix independently
    z_stream z; memset(&z,0,sizeof z); inflateInit2(&z,-15); uint32_t rem=len-last_full_in; uint8_t*dec=malloc(rem+10); z.next_in=out+last_full_out; z.avail_in=outn-last_full_out; z.next_out=dec; z.avail_out=rem+10; int zr=inflate(&z,Z_FINISH);
    if(zr!=Z_STREAM_END || z.total_out!=rem || memcmp(dec,in+last_full_in,rem)){ printf("it %ld SUFFIX FAIL zr=%d %s tout=%lu rem=%u lvl=%d\n",it,zr,z.msg?z.msg:"",z.total_out,rem,level); fail=1; }
    inflateEnd(&z); free(dec);
  }
  bad+=fail; free(in);free(out);free(lb);
 }
 printf("done %ld..%ld bad=%ld flushpoints=%ld nomark=%ld (empty-out=%ld)\n",n0,n,bad,fps,nomark,empties);
}
