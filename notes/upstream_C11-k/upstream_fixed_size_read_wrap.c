#include <stdio.h>
#include <string.h>
#include <stdlib.h>
#include <sys/mman.h>
#include "igzip_lib.h"
int main(void){
  size_t map = ((size_t)1<<32) + (1<<20);
  unsigned char *buf = mmap(0, map, PROT_READ|PROT_WRITE, MAP_PRIVATE|MAP_ANONYMOUS|MAP_NORESERVE, -1, 0);
  if (buf==MAP_FAILED){perror("mmap");return 2;}
  unsigned char data[100]; for(int i=0;i<100;i++) data[i]=i*7;
  struct isal_zstream s; isal_deflate_init(&s); s.gzip_flag=IGZIP_GZIP; s.next_out=buf; s.avail_out=1000;
  s.next_in=data; s.avail_in=100; s.end_of_stream=1; isal_deflate(&s);
  printf("gzip member of %u bytes at the start of a 4 GiB buffer\n", s.total_out);
  static struct inflate_state st; static unsigned char out[200];
  isal_inflate_init(&st); st.crc_flag=ISAL_GZIP; st.next_out=out; st.avail_out=sizeof out;
  st.next_in=buf; st.avail_in=3; int r1=isal_inflate(&st);
  printf("call 1 (3 bytes): ret %d tmp_in_size %d\n", r1, st.tmp_in_size); fflush(stdout);
  st.next_in=buf+3; st.avail_in=0xFFFFFFFEu; int r2=isal_inflate(&st);
  printf("call 2 (avail_in 0xFFFFFFFE): ret %d block_state %d total_out %u\n", r2, st.block_state, st.total_out);
  return 0;
}
