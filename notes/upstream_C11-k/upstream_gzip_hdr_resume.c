#include <stdio.h>
#include <string.h>
#include <stdlib.h>
#include "igzip_lib.h"
int main(void){
  unsigned char data[100]; for(int i=0;i<100;i++) data[i]=i*7;
  unsigned char comp[1000]; struct isal_zstream s; struct isal_gzip_header h;
  isal_deflate_init(&s); s.gzip_flag=IGZIP_GZIP_NO_HDR; s.next_out=comp; s.avail_out=sizeof comp;
  isal_gzip_header_init(&h); unsigned char extra[6]={1,2,3,4,5,6}; h.extra=extra; h.extra_len=6; h.name="abc"; h.name_buf_len=4;
  printf("hdr %u\n", isal_write_gzip_header(&s,&h));
  s.next_in=data; s.avail_in=100; s.end_of_stream=1; s.flush=NO_FLUSH;
  printf("def %d\n", isal_deflate(&s));
  unsigned clen=s.total_out; printf("clen %u\n", clen);
  for(unsigned split=1; split<30; split++){
    struct inflate_state st; unsigned char out[200];
    isal_inflate_init(&st); st.crc_flag=ISAL_GZIP; st.next_out=out; st.avail_out=sizeof out;
    st.next_in=comp; st.avail_in=split; int r1=isal_inflate(&st);
    st.next_in=comp+split; st.avail_in=clen-split; int r2=isal_inflate(&st);
    int ok = (r2==0 && st.block_state==ISAL_BLOCK_FINISH && st.total_out==100 && !memcmp(out,data,100));
    printf("split %u r1 %d r2 %d bs %d tot %u %s\n", split, r1,r2,st.block_state, st.total_out, ok?"ok":"BAD");
  }
  return 0;
}
