#define _GNU_SOURCE
#include <signal.h>
#include <stdio.h>
#include <stdint.h>
#include <string.h>
#include <ucontext.h>
#include <time.h>
#include <stdlib.h>
#include "crc.h"
static volatile long steps, ncpuid, nxgetbv; static volatile int stepping;
static uint32_t sim1_ecx=0, sim7_ebx=0, sim7_ecx=0, sim_xcr0=0; static int limit=100000000;
static void h(int sig, siginfo_t*si, void*uc_){ ucontext_t*uc=uc_; greg_t*g=uc->uc_mcontext.gregs;
  steps++;
  uint8_t*ip=(uint8_t*)g[REG_RIP];
  if(ip[0]==0x0f&&ip[1]==0xa2){ ncpuid++; uint32_t leaf=g[REG_RAX], sub=g[REG_RCX];
     uint32_t a=0,b=0,c=0,d=0; if(leaf==1){a=0x000806f8;c=sim1_ecx;d=0x078bfbff;} else if(leaf==7&&sub==0){b=sim7_ebx;c=sim7_ecx;}
     g[REG_RAX]=a;g[REG_RBX]=b;g[REG_RCX]=c;g[REG_RDX]=d; g[REG_RIP]+=2; }
  else if(ip[0]==0x0f&&ip[1]==0x01&&ip[2]==0xd0){ nxgetbv++; g[REG_RAX]=sim_xcr0; g[REG_RDX]=0; g[REG_RIP]+=3; }
  if(steps>=limit) g[REG_EFL]&=~0x100UL;
}
static inline void tf_on(void){ __asm__ volatile("pushfq; orq $0x100,(%%rsp); popfq":::"memory","cc"); }
static inline void tf_off(void){ __asm__ volatile("pushfq; andq $~0x100,(%%rsp); popfq":::"memory","cc"); }
extern void *crc32_gzip_refl_dispatched; 
int main(int argc,char**argv){
  struct sigaction sa; memset(&sa,0,sizeof sa); sa.sa_sigaction=h; sa.sa_flags=SA_SIGINFO; sigaction(SIGTRAP,&sa,0);
  uint8_t buf[4096]; for(int i=0;i<4096;i++)buf[i]=i*7;
  // config from argv: 0=base 1=sse+clmul 2=avx 3=avx512 full
  int cfg=atoi(argv[1]);
  uint32_t SSE3=1, CLMUL=1<<1, SSE41=1<<19, SSE42=1<<20, OSX=1<<27, AVX=1<<28;
  if(cfg>=1) sim1_ecx=SSE3|CLMUL|SSE41|SSE42;
  if(cfg>=2){ sim1_ecx|=OSX|AVX; sim_xcr0=7; }
  if(cfg>=3){ sim7_ebx=(1<<5)|(1<<16)|(1<<17)|(1<<28)|(1<<30)|(1u<<31); sim7_ecx=(1<<6)|(1<<8)|(1<<9)|(1<<10)|(1<<11)|(1<<12)|(1<<14); sim_xcr0=0xe7; }
  limit=400;
  tf_on(); uint32_t c=crc32_gzip_refl(0,buf,1000); tf_off();
  printf("cfg %d crc=%08x steps=%ld cpuid=%ld xgetbv=%ld\n",cfg,c,steps,ncpuid,nxgetbv);
  // timing of stepping
  steps=0; limit=100000000; struct timespec t0,t1; clock_gettime(CLOCK_MONOTONIC,&t0);
  tf_on(); for(int i=0;i<20;i++) c^=crc32_ieee_base(0,buf,4096); tf_off(); clock_gettime(CLOCK_MONOTONIC,&t1);
  double dt=(t1.tv_sec-t0.tv_sec)+(t1.tv_nsec-t0.tv_nsec)*1e-9; printf("steps=%ld in %.3fs => %.2f us/step (%x)\n",steps,dt,dt*1e6/steps,c);
}
