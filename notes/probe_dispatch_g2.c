#define _GNU_SOURCE
#include <signal.h>
#include <stdio.h>
#include <stdint.h>
#include <string.h>
#include <ucontext.h>
#include <stdlib.h>
#include "erasure_code.h"
static void* cand[8]; static const char* volatile hit="(none)"; static const char* names[]={"avx512_gfni","avx2_gfni","avx2","avx512","avx","sse","base"};
static volatile long steps; static uint32_t sim1_ecx, sim7_ebx, sim7_ecx, sim_xcr0; static int limit=300;
static void h(int sig, siginfo_t*si, void*uc_){ ucontext_t*uc=uc_; greg_t*g=uc->uc_mcontext.gregs; steps++; uint8_t*ip=(uint8_t*)g[REG_RIP]; for(int i=0;i<7;i++) if((void*)ip==cand[i]) hit=names[i];
  if(ip[0]==0x0f&&ip[1]==0xa2){ uint32_t leaf=g[REG_RAX], sub=g[REG_RCX]; uint32_t a=0,b=0,c=0,d=0; if(leaf==1){a=0x000806f8;c=sim1_ecx;d=0x078bfbff;} else if(leaf==7&&sub==0){b=sim7_ebx;c=sim7_ecx;} g[REG_RAX]=a;g[REG_RBX]=b;g[REG_RCX]=c;g[REG_RDX]=d; g[REG_RIP]+=2; }
  else if(ip[0]==0x0f&&ip[1]==0x01&&ip[2]==0xd0){ g[REG_RAX]=sim_xcr0; g[REG_RDX]=0; g[REG_RIP]+=3; }
  if(steps>=limit) g[REG_EFL]&=~0x100UL; }
static inline void tf_on(void){ __asm__ volatile("pushfq; orq $0x100,(%%rsp); popfq":::"memory","cc"); }
static inline void tf_off(void){ __asm__ volatile("pushfq; andq $~0x100,(%%rsp); popfq":::"memory","cc"); }
extern void ec_encode_data_avx512_gfni(), ec_encode_data_avx2_gfni(), ec_encode_data_avx2(), ec_encode_data_avx512(), ec_encode_data_avx(), ec_encode_data_sse(), ec_encode_data_base();

int main(){ struct sigaction sa; memset(&sa,0,sizeof sa); sa.sa_sigaction=h; sa.sa_flags=SA_SIGINFO; sigaction(SIGTRAP,&sa,0);
  uint32_t SSE3=1, CLMUL=1<<1, SSE41=1<<19, SSE42=1<<20, OSX=1<<27, AVX=1<<28;
  sim1_ecx=SSE3|CLMUL|SSE41|SSE42|OSX|AVX; sim_xcr0=0xe7;
  sim7_ebx=(1<<5)|(1<<16)|(1<<28); /* AVX2, AVX512F, AVX512CD only: no DQ/BW/VL */
  sim7_ecx=(1<<6)|(1<<8)|(1<<9)|(1<<10)|(1<<11)|(1<<12)|(1<<14); /* all G2 */
  unsigned char a[4*2], g[32*4*2], d0[64],d1[64],*src[2]={d0,d1}, p0[64],p1[64],*dst[2]={p0,p1}; memset(d0,1,64);memset(d1,2,64); gf_gen_cauchy1_matrix(a,4,2); 
  ec_init_tables_base(2,2,&a[4],g);
  cand[0]=ec_encode_data_avx512_gfni;cand[1]=ec_encode_data_avx2_gfni;cand[2]=ec_encode_data_avx2;cand[3]=ec_encode_data_avx512;cand[4]=ec_encode_data_avx;cand[5]=ec_encode_data_sse;cand[6]=ec_encode_data_base;
  tf_on(); ec_encode_data(0,2,2,g,src,dst); tf_off();
  printf("config: AVX2+AVX512F+CD (no DQ/BW/VL), all G2 bits, XCR0=0xe7 -> ec_encode_data resolved to: %s (steps=%ld)\n",hit,steps);
}
