// throwaway: input chunks in exact-size mappings, PROT_NONE once avail_in==0; detect stale reads (SIGSEGV)
#define _GNU_SOURCE
#include <stdio.h>
#include <stdlib.h>
#include <string.h>
#include <signal.h>
#include <setjmp.h>
#include <sys/mman.h>
#include <zlib.h>
#include "igzip_lib.h"
static uint64_t s; static uint32_t rnd(void){ s^=s<<13; s^=s>>7; s^=s<<17; return (uint32_t)(s>>11);} 
static uint32_t pick(uint32_t n){return n?rnd()%n:0;}
static int lvl_sizes[4]={0,ISAL_DEF_LVL1_MIN,ISAL_DEF_LVL2_MIN,ISAL_DEF_LVL3_MIN};
static int lvl_big[4]={0,ISAL_DEF_LVL1_EXTRA_LARGE,ISAL_DEF_LVL2_EXTRA_LARGE,ISAL_DEF_LVL3_EXTRA_LARGE};
static sigjmp_buf jb; static void*fault_addr; static void h(int sig,siginfo_t*si,void*u){ fault_addr=si->si_addr; siglongjmp(jb,1);} 
#define PG 4096
static uint8_t* chunk_alloc(uint32_t n, uint8_t**base, size_t*maplen){ size_t pages=(n+PG-1)/PG+2; uint8_t*m=mmap(0,pages*PG,PROT_READ|PROT_WRITE,MAP_PRIVATE|MAP_ANONYMOUS,-1,0); mprotect(m,PG,PROT_NONE); mprotect(m+(pages-1)*PG,PG,PROT_NONE); *base=m; *maplen=pages*PG; return m+(pages-1)*PG-n; }
int main(int argc,char**argv){ long n0=atol(argv[1]),n=atol(argv[2]); long bad=0; struct sigaction sa; memset(&sa,0,sizeof sa); sa.sa_sigaction=h; sa.sa_flags=SA_SIGINFO|SA_NODEFER; sigaction(SIGSEGV,&sa,0);
 for(long it=n0;it<n;it++){ s=0x9e3779b97f4a7c15ULL*(it+1)+8080;
  uint32_t len=pick(3)==0?pick(400000):pick(20000); uint8_t*in=malloc(len+1); int kind=pick(4); for(uint32_t i=0;i<len;i++) in[i]= kind==0?rnd(): kind==1?(rnd()%4+'a'): kind==2?(i%97):((i/3000)%2?rnd():7);
  struct isal_zstream st; memset(&st,rnd(),sizeof st); isal_deflate_init(&st); int level=pick(4); st.level=level; uint32_t lbs= pick(2)?lvl_big[level]:lvl_sizes[level]+pick(50000); uint8_t*lb=malloc(lbs+1); st.level_buf=lb; st.level_buf_size=lbs; st.gzip_flag=pick(5);
  uint32_t cap=len*2+1000000; uint8_t*out=malloc(cap); uint32_t outn=0,inpos=0; int im=pick(4), om=pick(4); st.avail_in=0; uint8_t*cbase=0; size_t cmap=0; volatile int calls=0; static uint8_t* volatile lastrel; static volatile size_t lastlen; static uint8_t* volatile lastdata; static volatile uint32_t lastn; volatile int fail=0;
  if(sigsetjmp(jb,1)){ printf("it %ld SIGSEGV addr=%p last released map %p..%p (data ended at map_end-4096) off_from_data_end=%ld lvl=%d lbs=%u state=%d calls=%d total_in=%u bvalid=%u bproc=%u block_next=%u block_end=%u avail_in=%u avail_out=%u eos=%d flush=%d\n",it,fault_addr,lastrel,lastrel+lastlen,(long)((uint8_t*)fault_addr-(lastrel+lastlen-4096)),level,lbs,st.internal_state.state,calls,st.total_in,st.internal_state.b_bytes_valid,st.internal_state.b_bytes_processed,st.internal_state.block_next,st.internal_state.block_end,st.avail_in,st.avail_out,st.end_of_stream,st.flush); bad++; fail=1; }
  while(!fail && st.internal_state.state!=ZSTATE_END){
    if(st.avail_in==0){ if(cbase){ lastrel=cbase; lastlen=cmap; mprotect(cbase,cmap,PROT_NONE); static uint8_t*qb[32]; static size_t ql[32]; static int qi; if(qb[qi]) munmap(qb[qi],ql[qi]); qb[qi]=cbase; ql[qi]=cmap; qi=(qi+1)%32; cbase=0;} if(inpos<len){ uint32_t c= im==0?1+pick(10): im==1?1+pick(3000): im==2?1+pick(100000):len; if(c>len-inpos)c=len-inpos; uint8_t*p=chunk_alloc(c,&cbase,&cmap); if(argc>3) printf("CHUNK alloc len=%u data=%p..%p inpos=%u\n",c,p,p+c,inpos); memcpy(p,in+inpos,c); st.next_in=p; st.avail_in=c; inpos+=c; } }
    st.end_of_stream=(inpos==len); st.flush=pick(10)==0?pick(3):0; uint32_t oc= om==0?1+pick(10): om==1?1+pick(300): om==2?1+pick(40000):cap; if(oc>cap-outn)oc=cap-outn; st.next_out=out+outn; st.avail_out=oc; if(argc>3) printf("call %d: state=%d ai=%u oc=%u eos=%d fl=%d total_in=%u bvalid=%u bproc=%u blk=%u..%u\n",calls,st.internal_state.state,st.avail_in,oc,st.end_of_stream,st.flush,st.total_in,st.internal_state.b_bytes_valid,st.internal_state.b_bytes_processed,st.internal_state.block_next,st.internal_state.block_end); isal_deflate(&st); calls++; outn+=oc-st.avail_out; if(calls>4000000){printf("it %ld many calls\n",it);break;} }
  if(!fail){ z_stream z; memset(&z,0,sizeof z); int wrap=st.gzip_flag; /* gzip_flag may have been changed to NO_HDR variant internally */ 
    inflateInit2(&z, 47); /* auto-detect gzip/zlib */ if(out[0]!=0x1f && (out[0]&0xf)!=8){} 
    inflateEnd(&z); }
  free(in);free(out);free(lb);
 }
 printf("done bad=%ld\n",bad);
}
