#define _GNU_SOURCE
#include <signal.h>
#include <stdio.h>
#include <stdint.h>
#include <string.h>
#include <ucontext.h>
#include <unistd.h>
#include <sys/syscall.h>
#include <asm/prctl.h>
static volatile int hits;
static void h(int sig, siginfo_t*si, void*uc_){ ucontext_t*uc=uc_; greg_t*g=uc->uc_mcontext.gregs; uint8_t*ip=(uint8_t*)g[REG_RIP];
  if(ip[0]==0x0f&&ip[1]==0xa2){hits++; g[REG_RAX]=0x1234; g[REG_RBX]=g[REG_RCX]=g[REG_RDX]=0; g[REG_RIP]+=2; return;} _exit(3);}
int main(){ struct sigaction sa; memset(&sa,0,sizeof sa); sa.sa_sigaction=h; sa.sa_flags=SA_SIGINFO; sigaction(SIGSEGV,&sa,0);
  long r=syscall(SYS_arch_prctl, ARCH_SET_CPUID, 0UL); printf("arch_prctl ret %ld\n",r);
  uint32_t a=1,b,c=0,d; __asm__ volatile("cpuid":"+a"(a),"=b"(b),"+c"(c),"=d"(d)); printf("eax=%x hits=%d\n",a,hits);
  syscall(SYS_arch_prctl, ARCH_SET_CPUID, 1UL); a=1;c=0; __asm__ volatile("cpuid":"+a"(a),"=b"(b),"+c"(c),"=d"(d)); printf("eax=%x ecx=%x hits=%d\n",a,c,hits);
}
