/* Probe for an upstream (unmodified-library) observation: the asm kernels take
 * "int len" but use the full 64-bit register.  The SysV ABI leaves bits 63:32
 * of a register carrying an int argument undefined, and gcc/clang do forward a
 * 64-bit value unchanged when it is cast to int in a tail position. */
#include <stdio.h>
#include <stdlib.h>
#include <string.h>
#include "erasure_code.h"

__attribute__((noinline)) static void
mad_from_long(long n, unsigned char *tbl, unsigned char *src, unsigned char *dst)
{
        gf_vect_mad_sse((int) n, 1, 0, tbl, src, dst); /* (int)n == 64 */
}

int
main(void)
{
        unsigned char tbl[32], *src = malloc(1 << 20), *dst = calloc(1 << 20, 1);
        memset(src, 0x5a, 1 << 20);
        gf_vect_mul_init(3, tbl);
        mad_from_long(0x100000040L, tbl, src, dst); /* low 32 bits = 64 */
        int touched = 0;
        for (int i = 64; i < (1 << 20); i++)
                touched |= dst[i];
        printf("bytes beyond len=64 touched: %s\n", touched ? "YES" : "no");
        return touched ? 1 : 0;
}
