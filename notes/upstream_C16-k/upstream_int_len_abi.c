#include <stdio.h>
#include <stdint.h>
#include <stdlib.h>
#include <string.h>
#include "crc.h"
#include "raid.h"
#include "erasure_code.h"
/* legal C: the 64-bit value is converted to int (implementation-defined: modulo 2^32 with gcc) */
__attribute__((noinline)) unsigned f(unsigned char *b, uint64_t n) { return crc32_iscsi(b, (int) n, 0); }
__attribute__((noinline)) int g(unsigned char *t, unsigned char *s, unsigned char *d, uint64_t n) { return gf_vect_mul((int) n, t, s, d); }
int main(void)
{
        static unsigned char buf[4096];
        for (int i = 0; i < 4096; i++) buf[i] = i * 7 + 1;
        unsigned a = f(buf, 64);
        unsigned r = crc32_iscsi_base(buf, 64, 0);
        printf("len=64: %08x base %08x\n", a, r);
        fflush(stdout);
        unsigned b = f(buf, (1ULL << 32) + 64);
        printf("len=(int)(2^32+64): %08x\n", b);
        return a != b;
}
