#include <stdio.h>
#include <string.h>
#include <zlib.h>
#include "igzip_lib.h"
int main(){ // zlib stream with preset dictionary
  const unsigned char dict[]="hello hello dictionary"; z_stream z; memset(&z,0,sizeof z); deflateInit(&z,6); deflateSetDictionary(&z,dict,sizeof dict);
  unsigned long ad=adler32(adler32(0,0,0),dict,sizeof dict);
  unsigned char in[]="hello hello hello", comp[200]; z.next_in=in; z.avail_in=sizeof in; z.next_out=comp; z.avail_out=sizeof comp; deflate(&z,Z_FINISH);
  printf("zlib hdr bytes: %02x %02x %02x %02x %02x %02x ; adler(dict)=%08lx\n",comp[0],comp[1],comp[2],comp[3],comp[4],comp[5],ad);
  struct inflate_state st; isal_inflate_init(&st); struct isal_zlib_header h; isal_zlib_header_init(&h); st.next_in=comp; st.avail_in=z.total_out;
  int r=isal_read_zlib_header(&st,&h); printf("isal read: ret=%d dict_flag=%u dict_id=%08x  %s\n",r,h.dict_flag,h.dict_id, h.dict_id==ad?"MATCH":"MISMATCH (byte-swapped?)");
  struct isal_zstream s; isal_deflate_init(&s); unsigned char o[16]; s.next_out=o; s.avail_out=16; h.dict_id=0x11223344; h.dict_flag=1; h.info=7; h.level=2; isal_write_zlib_header(&s,&h);
  printf("isal write dict_id 0x11223344 -> %02x %02x %02x %02x %02x %02x (RFC1950 wants 11 22 33 44)\n",o[0],o[1],o[2],o[3],o[4],o[5]);
}
